"""C16 bounded stand-in + native replay (runs the REAL functions of /repo).

BOUNDED - never counted as proved.  Bounds are stated in `rule`.
"""
from __future__ import annotations

import numpy as np

import itertools
import math
import random

from rtc import util  # noqa: F401  (quiet logging)
from liesel.goose.epoch import EpochConfig, EpochManager, EpochType
from liesel.goose.warmup import stan_epochs


def valid_py(seq):
    """Valid(seq) literally from the property statement; seq = [(type, duration, thinning)]"""
    if not seq:
        return True
    if seq[0][0] != 0 or seq[0][1] != 1:
        return False
    seen_post = False
    for j, (t, d, th) in enumerate(seq):
        if j > 0 and t == 0:
            return False
        if d < 1 or th < 1 or th > d:
            return False
        if t == 4 and d % th != 0:
            return False
        if seen_post and 1 <= t <= 3:
            return False
        if t == 4:
            seen_post = True
    return True


def mk(cfg):
    return EpochConfig(EpochType(cfg[0]), cfg[1], cfg[2], None)


def check_append(prefix, cfg):
    """returns None or a violation dict; prefix must be valid"""
    m = EpochManager([mk(c) for c in prefix])
    before = [(int(c.type), c.duration, c.thinning) for c in m._configs]
    want = valid_py(prefix + [cfg])
    try:
        m.append(mk(cfg))
        got = True
    except RuntimeError:
        got = False
    except Exception as e:  # any other exception type is a violation of the contract
        return {"sig": "native::append::wrong_exception", "what": f"append raised {type(e).__name__}", "input": {"prefix": prefix, "config": cfg}}
    after = [(int(c.type), c.duration, c.thinning) for c in m._configs]
    if got != want:
        return {"sig": "native::append::accept_iff_valid", "what": f"append accepted={got} but Valid={want}", "input": {"prefix": prefix, "config": cfg}}
    if got and after != before + [cfg]:
        return {"sig": "native::append::appended", "what": "configs after append != configs ++ [c]", "input": {"prefix": prefix, "config": cfg}}
    if not got and after != before:
        return {"sig": "native::append::frame", "what": "rejected append modified the manager", "input": {"prefix": prefix, "config": cfg}}
    return None


def check_attempts(attempts, interleave=False):
    """a manager driven through the public methods only: append attempts (valid or not), then next() until exhausted"""
    inp = {"append_attempts": [list(a) for a in attempts], "next_after_each_append": interleave}
    m = EpochManager([])
    acc, handed, t = [], 0, 0

    def take():
        nonlocal handed, t
        st = m.next()
        c = acc[handed]
        got = (st.nth_epoch, st.time, st.time_before_epoch, st.time_in_epoch, int(st.config.type), st.config.duration, st.config.thinning)
        want = (handed, t, t, 0, c[0], c[1], c[2])
        handed += 1
        t += c[1]
        return None if got == want else {"sig": "native::attempts::state", "what": f"epoch state (index, time, start, time in epoch, type, duration, thinning) {got} != {want} "
                                         "after a history with rejected appends", "input": inp}

    for cfg in attempts:
        want = valid_py(acc + [cfg])
        try:
            m.append(mk(cfg))
            got = True
        except RuntimeError:
            got = False
        if got != want:
            return {"sig": "native::attempts::accept_iff_valid", "what": f"append of {cfg} accepted={got} but Valid={want}", "input": inp}
        if got:
            acc.append(cfg)
        if interleave and handed < len(acc):
            v = take()
            if v:
                return v
    while handed < len(acc):
        if not m.has_more():
            return {"sig": "native::attempts::has_more", "what": "has_more false although accepted epochs remain", "input": inp}
        v = take()
        if v:
            return v
    if m.has_more():
        return {"sig": "native::attempts::has_more", "what": "has_more true after exhaustion", "input": inp}
    return None


def check_next(seq):
    m = EpochManager([mk(c) for c in seq])
    t = 0
    for i, c in enumerate(seq):
        if not m.has_more():
            return {"sig": "native::next::has_more", "what": "has_more false too early", "input": {"schedule": seq}}
        st = m.next()
        got = (st.nth_epoch, st.time, st.time_before_epoch, st.time_in_epoch, int(st.config.type), st.config.duration, st.config.thinning)
        want = (i, t, t, 0, c[0], c[1], c[2])
        if got != want:
            return {"sig": "native::next::state", "what": f"epoch state {got} != {want}", "input": {"schedule": seq}}
        t += c[1]
    if m.has_more():
        return {"sig": "native::next::has_more", "what": "has_more true after exhaustion", "input": {"schedule": seq}}
    try:
        m.next()
        return {"sig": "native::next::raise", "what": "next() on exhausted manager did not raise", "input": {"schedule": seq}}
    except RuntimeError:
        pass
    return None


def check_stan(args):
    from rtc.util import time_limit

    try:
        with time_limit(5):
            return _check_stan(args)
    except TimeoutError:
        return {"sig": "native::stan::nontermination", "what": "stan_epochs did not return within 5 s", "input": {"args": args}}
    except MemoryError:
        return {"sig": "native::stan::nontermination", "what": "stan_epochs exhausted memory", "input": {"args": args}}


def _check_stan(args):
    W, P, I, T, B, thp, thw = args
    admissible = (W >= 20 and W >= I + T + B and I >= 1 and T >= 1 and B >= 1 and P >= 1 and 1 <= thw <= min(I, T, B)
                  and 1 <= thp <= P and P % thp == 0)
    try:
        eps = stan_epochs(W, P, I, T, B, thp, thw)
    except ValueError:
        if W < 20 or W < I + T + B:
            return None
        return {"sig": "native::stan::raises", "what": "ValueError for arguments passing the documented guards", "input": {"args": args}}
    if W < 20 or W < I + T + B:
        return {"sig": "native::stan::guard", "what": "no ValueError although a documented guard fails", "input": {"args": args}}
    if not admissible:
        return None
    seq = [(int(e.type), e.duration, e.thinning) for e in eps]
    inp = {"args": args, "result": seq}
    if not valid_py(seq):
        return {"sig": "native::stan::valid", "what": "schedule is not valid", "input": inp}
    try:
        EpochManager(eps)
    except RuntimeError:
        return {"sig": "native::stan::manager_rejects", "what": "EpochManager rejects the generated schedule", "input": inp}
    if sum(d for t, d, _ in seq if 1 <= t <= 3) != W:
        return {"sig": "native::stan::warmup_sum", "what": "warmup epochs do not sum to warmup_duration", "input": inp}
    n = len(seq)
    ok = (n >= 5 and seq[0] == (0, 1, 1) and seq[1] == (1, I, thw) and seq[-2] == (1, T, thw) and seq[-1] == (4, P, thp)
          and all(s[0] == 2 and s[2] == thw for s in seq[2:-2]))
    slow = [s[1] for s in seq[2:-2]]
    if ok and len(slow) > 1:
        ok = slow[0] == B and all(slow[k + 1] == 2 * slow[k] for k in range(len(slow) - 2)) and 2 * slow[-2] <= slow[-1] < 6 * slow[-2]
    elif ok:
        ok = B <= slow[0] < 3 * B
    if not ok:
        return {"sig": "native::stan::pattern", "what": "schedule does not follow fast/doubling-slow/fast/posterior", "input": inp}
    return None


def check_stan_independent():
    """two calls with the same arguments return independent schedules: editing the first (fields, length) does not change the second"""
    from liesel.goose.warmup import stan_epochs
    for args, kw in (((200, 100), {"term_duration": 10}), ((1000, 1000), {})):
        first = stan_epochs(*args, **kw)
        snap = [(int(e.type), e.duration, e.thinning) for e in first]
        first[-1].thinning = 7
        first[1].duration = 3
        first.pop(0)
        first.append(first[-1])
        second = stan_epochs(*args, **kw)
        got = [(int(e.type), e.duration, e.thinning) for e in second]
        if got != snap or second is first:
            return {"sig": "native::stan::results_share_state", "what": f"stan_epochs{args} called again after the first result was edited: {got[:3]}... ({len(got)} epochs), the documented schedule is {snap[:3]}... ({len(snap)} epochs)",
                    "input": {"args": list(args), "kwargs": kw}}
    return None


def check_builder_chunk(seq):
    import jax
    import liesel.goose as gs

    b = gs.EngineBuilder(seed=0, num_chains=1)
    b.set_epochs([mk(c) for c in seq])
    b.set_model(gs.DictInterface(lambda s: 0.0))
    b.set_initial_values({"x": 0.0})
    b.add_kernel(gs.GibbsKernel(["x"], lambda key, st: {"x": st["x"]}))
    b.show_progress = False
    eng = b.build()
    g = eng._jitted_sample_duration
    for c in seq[1:]:
        if g < 1 or c[1] % g != 0:
            return {"sig": "native::builder::chunk", "what": f"chunk {g} does not divide duration {c[1]}", "input": {"schedule": seq}}
    if sum(c[1] for c in seq) <= 60:
        try:
            eng.sample_all_epochs()
        except Exception as e:
            return {"sig": "native::builder::accepted_schedule_cannot_be_sampled", "what": f"an accepted schedule raises {type(e).__name__} when sampled: {str(e)[:120]}", "input": {"schedule": seq}}
    # the same builder built AGAIN: same chunk length, and the engine samples the whole schedule
    eng2 = b.build()
    g2 = eng2._jitted_sample_duration
    total = sum(c[1] for c in seq)
    if g2 != g:
        return {"sig": "native::builder::second_build", "what": f"second build() of the same builder: chunk length {g2}, first build {g}", "input": {"schedule": seq}}
    if total <= 60:
        eng2.sample_all_epochs()
        n = int(np.asarray(eng2.get_results().get_samples()["x"]).shape[1])
        want = 1 + sum(c[1] // c[2] for c in seq[1:])
        if n != want:
            return {"sig": "native::builder::second_build", "what": f"second build() of the same builder: the engine stored {n} samples for a schedule that stores {want}", "input": {"schedule": seq}}
    return None


def check_set_epochs_iterables():
    """the schedule handed to EngineBuilder.set_epochs as a list, a tuple, an iterator and a generator (set_epochs takes an Iterable): the whole schedule
    arrives, invalid schedules are rejected, a valid one with two posterior epochs is accepted"""
    import itertools
    import liesel.goose as gs
    good = [(0, 1, 1), (3, 6, 1), (4, 9, 3), (4, 12, 1)]
    bad = [(0, 1, 1), (3, 6, 1), (4, 10, 3)]
    wraps = {"list": list, "tuple": tuple, "iter": iter, "generator": lambda xs: (x for x in xs), "chain": lambda xs: itertools.chain(xs[:2], xs[2:])}
    for how, w in wraps.items():
        b = gs.EngineBuilder(seed=0, num_chains=1)
        cfgs = [mk(c) for c in good]
        try:
            b.set_epochs(w(cfgs))
            got = list(b.epochs)
        except Exception as e:
            return {"sig": "native::builder::set_epochs_iterable", "what": f"a valid schedule given as {how} is rejected: {type(e).__name__}: {str(e)[:100]}", "input": {"schedule": good, "iterable": how}}
        if len(got) != len(cfgs) or any(g is not x for g, x in zip(got, cfgs)):
            return {"sig": "native::builder::set_epochs_iterable", "what": f"a schedule of {len(cfgs)} epochs given as {how}: the builder holds {len(got)} of them", "input": {"schedule": good, "iterable": how}}
        try:
            b.set_epochs(w([mk(c) for c in bad]))
            return {"sig": "native::builder::set_epochs_iterable", "what": f"an invalid schedule (posterior duration 10, thinning 3) given as {how} is accepted; the builder then holds {len(b.epochs)} epochs",
                    "input": {"schedule": bad, "iterable": how}}
        except RuntimeError:
            pass
    return None


def bounded(tier, seed):
    rng = random.Random(seed)
    L = 4 if tier == "quick" else 5
    DUR, TH = range(0, 4), range(0, 4)
    cands = [(t, d, th) for t in range(5) for d in DUR for th in TH]
    violations, evals, distinct, samples = [], 0, 0, []
    seen_sigs = set()

    def add(v):
        if v and v["sig"] not in seen_sigs:
            seen_sigs.add(v["sig"])
            violations.append(v)

    # exhaustive DFS over valid prefixes, every candidate append at every prefix
    stack = [[]]
    n_prefix = 0
    while stack:
        prefix = stack.pop()
        n_prefix += 1
        if prefix:
            add(check_next(prefix))
            evals += 1
        if len(prefix) >= L:
            continue
        for c in cands:
            if len(prefix) == L - 1 and tier == "quick" and rng.random() < 0.75:
                continue  # quick: sample a quarter of the deepest layer
            add(check_append(prefix, c))
            evals += 1
            distinct += 1
            if valid_py(prefix + [c]):
                stack.append(prefix + [c])
    # histories with rejected append attempts, observed through next() only
    n_att = 300 if tier == "quick" else 6000
    for _ in range(n_att):
        att, acc = [], []
        for _k in range(rng.randint(2, 5)):
            if rng.random() < 0.45:
                cfg = rng.choice(cands)
            else:
                good = [c_ for c_ in rng.sample(cands, 25) if valid_py(acc + [c_])]
                cfg = good[0] if good else rng.choice(cands)
            att.append(cfg)
            if valid_py(acc + [cfg]):
                acc.append(cfg)
        add(check_attempts(att, interleave=rng.random() < 0.5))
        evals += 1
    distinct += n_att
    samples.append({"append": {"prefix": [(0, 1, 1), (2, 3, 2)], "config": (4, 2, 2)}})
    # stan_epochs grid + random
    grid = []
    for W in (20, 21, 37, 150, 1000):
        for I, T, B in ((1, 1, 1), (5, 3, 2), (75, 50, 25), (7, 7, 6)):
            for thw in (1, 2):
                for P, thp in ((1, 1), (12, 3), (10, 4)):
                    grid.append((W, P, I, T, B, thp, thw))
    for _ in range(400 if tier == "quick" else 20000):
        W = rng.randint(15, 400)
        # base_duration >= 1 always: with base_duration <= 0 the real loop `while 3*this_time <= time_left`
        # never terminates (outside the admissible domain of the property; noted in DESIGN.md)
        I, T, B = rng.randint(0, 60), rng.randint(0, 60), rng.randint(1, 40)
        P = rng.randint(1, 50)
        thp = rng.choice([d for d in range(1, P + 1) if P % d == 0] + [rng.randint(1, 5)])
        grid.append((W, P, I, T, B, thp, rng.randint(1, 4)))
    for a in grid:
        add(check_stan(a))
        evals += 1
    distinct += len(set(grid))
    samples.append({"stan_epochs": grid[7]})
    add(check_stan_independent())
    evals += 1
    # builder chunk on a few real builds
    scheds = [[(0, 1, 1), (1, 6, 1), (2, 9, 3), (4, 12, 4)], [(0, 1, 1), (3, 7, 1)], [(0, 1, 1), (4, 10, 5), (4, 15, 1)],
              [(0, 1, 1), (3, 6, 1), (4, 1, 1)], [(0, 1, 1), (3, 1, 1), (1, 8, 2), (4, 4, 1)], [(0, 1, 1), (4, 1, 1)],
              [(0, 1, 1), (3, 2500, 1), (4, 5000, 1)], [(0, 1, 1), (4, 1001, 1)], [(0, 1, 1), (3, 3 * 7919, 1), (4, 7919, 1)]]
    if tier != "quick":
        for _ in range(20):
            s = [(0, 1, 1)]
            for _ in range(rng.randint(1, 4)):
                d = rng.randint(1, 12)
                s.append((rng.choice([1, 2, 3]), d, 1))
            scheds.append(s)
    try:
        add(check_set_epochs_iterables())
    except Exception as e:
        add({"sig": f"native::builder::exception::{type(e).__name__}", "what": str(e)[:200], "input": {"scenario": "set_epochs with iterables"}})
    evals += 1
    for s in scheds:
        add(check_builder_chunk(s))
        evals += 1
    distinct += len(scheds)
    samples.append({"builder": scheds[0]})
    return {
        "evaluations": evals,
        "distinct_nontrivial": distinct,
        "rule": (f"BOUNDED: every valid schedule prefix of <= {L} epochs over type 0..4 x duration 0..3 x thinning 0..3 "
                 f"({n_prefix} prefixes; quick tier samples 1/4 of the deepest layer) x every candidate append; next() on every prefix; "
                 f"{n_att} seeded histories of 2-5 append attempts (valid and invalid mixed, optionally a next() after each) observed through next()/has_more() only; stan_epochs on {len(grid)} argument tuples (grid + seeded random, seed={seed}) and twice with equal arguments around an in-place edit of the first result; builder chunk on {len(scheds)} real builds; set_epochs with the schedule as list / tuple / iterator / generator / chain. "
                 "A case is counted once per distinct (prefix, config) / argument tuple / schedule."),
        "samples": samples,
        "exhaustive": tier != "quick",
        "violations": violations,
    }


def _seq_from_model(d):
    return [(int(i["type"]), int(i["duration"]), int(i["thinning"])) for i in d.get("items", [])]


def replay(unit_id, obligation, model):
    """Concretise a solver counter-model and run the real function."""
    try:
        if unit_id == "C16.append" and "configs" in model and "config" in model:
            prefix = _seq_from_model(model["configs"])
            if model["configs"]["len"] != len(prefix) or not valid_py(prefix):
                return None
            c = model["config"]
            return check_append(prefix, (int(c["type"]), int(c["duration"]), int(c["thinning"])))
        if unit_id.startswith("C16.observable") and all(f"c{i}" in model for i in range(3)):
            att = [(int(model[f"c{i}"]["type"]), int(model[f"c{i}"]["duration"]), int(model[f"c{i}"]["thinning"])) for i in range(3)]
            return check_attempts(att, interleave=unit_id.endswith("interleaved"))
        if unit_id.startswith("C16.builder_chunk.n"):
            n = int(unit_id[-1])
            seq = [(int(model[f"c{i}"]["type"]), int(model[f"c{i}"]["duration"]), int(model[f"c{i}"]["thinning"])) for i in range(n)]
            if not valid_py(seq) or sum(c[1] for c in seq) > 10**6:
                return None
            return check_builder_chunk(seq)
        if unit_id == "C16.next" and "configs" in model:
            seq = _seq_from_model(model["configs"])
            if model["configs"]["len"] != len(seq) or not valid_py(seq):
                return None
            return check_next(seq)
        if unit_id.startswith("C16.stan") and "args" in model:
            return check_stan(tuple(int(x) for x in model["args"]))
        if unit_id == "C16.init" and "configs" in model:
            seq = _seq_from_model(model["configs"])
            if model["configs"]["len"] != len(seq):
                return None
            want = valid_py(seq)
            try:
                EpochManager([mk(c) for c in seq])
                got = True
            except RuntimeError:
                got = False
            if got != want:
                return {"sig": "native::init::accept_iff_valid", "what": f"EpochManager(configs) accepted={got}, Valid={want}", "input": {"schedule": seq}}
    except (KeyError, TypeError, ValueError):
        return None
    return None

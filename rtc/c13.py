"""C13 bounded stand-in: real tau2 Gibbs kernel and finite-discrete Gibbs kernel against the model's joint density (numeric)."""
from __future__ import annotations

import jax
import jax.numpy as jnp
import numpy as np
import tensorflow_probability.substrates.jax.bijectors as tfb
import tensorflow_probability.substrates.jax.distributions as tfd

from rtc import util
import liesel.goose as gs
import liesel.model as lsl
from liesel.model import DistRegBuilder
from liesel.model.distreg import tau2_gibbs_kernel
from liesel.model.goose import finite_discrete_gibbs_kernel


def tau2_case(col, rng, change_a, rank_def, scale=1.0, tiny_eig=False):
    n, p = 15, 5
    b = DistRegBuilder()
    b.add_response(rng.normal(size=n).astype(np.float32), tfd.Normal)
    b.add_predictor("loc", tfb.Identity)
    b.add_predictor("scale", tfb.Exp)
    D = np.diff(np.eye(p), n=2 if rank_def else 0, axis=0) if rank_def else np.eye(p)
    K = (D.T @ D * scale).astype(np.float32)
    if tiny_eig:
        K = np.diag([2.0, 1.0, 0.5, 0.25, 1e-8]).astype(np.float32)  # full rank, one eigenvalue below any absolute 1e-6 threshold
    b.add_np_smooth(rng.normal(size=(n, p)).astype(np.float32), K, a=0.5, b=0.3, predictor="loc", name="f")
    b.add_p_smooth(np.ones((n, 1), np.float32), m=0.0, s=3.0, predictor="scale")
    model = b.build_model()
    group = model.groups()["f"]
    kernel = tau2_gibbs_kernel(group)
    model.vars["f_beta"].value = jnp.asarray(rng.normal(size=p), jnp.float32)
    if change_a:
        model.vars["f_a"].value = np.float32(6.0)
        model.vars["f_b"].value = np.float32(1.1)
    iface = gs.LieselInterface(model)
    kernel.set_model(iface)
    state = model.state
    a, bb = float(model.vars["f_a"].value), float(model.vars["f_b"].value)
    beta = np.asarray(model.vars["f_beta"].value, np.float64)
    rank = np.linalg.matrix_rank(K)
    a_star, b_star = a + rank / 2, bb + 0.5 * beta @ K.astype(np.float64) @ beta
    inp = {"hyperparameters_changed_after_kernel_creation": change_a, "rank_deficient": rank_def, "a": a, "b": bb, "rank": int(rank), "penalty_scale": scale, "tiny_eigenvalue": tiny_eig}
    key = jax.random.PRNGKey(int(rng.integers(0, 2**31)))
    draw = float(kernel._transition_fn(key, state)["f_tau2"])
    want = b_star / float(jax.random.gamma(key, jnp.float32(a_star)))
    if not np.isclose(draw, want, rtol=2e-3):
        col.add({"sig": "native::gibbs::tau2_draw", "what": f"draw {draw} but b*/gamma(key, a*) with a*=a+rank/2={a_star}, b*={b_star} gives {want}", "input": inp})
        return
    grid = np.array([0.05, 0.3, 1.0, 4.0, 30.0], np.float32)
    lp = np.array([float(iface.log_prob(iface.update_state({"f_tau2": jnp.float32(t)}, state))) for t in grid], np.float64)
    ig = np.asarray(tfd.InverseGamma(np.float64(a_star), np.float64(b_star)).log_prob(grid.astype(np.float64)), np.float64)
    diff = lp - ig
    if np.ptp(diff) > 2e-2 * max(1.0, np.abs(lp).max() / 50):
        col.add({"sig": "native::gibbs::tau2_conditional", "what": f"model log-density minus log IG(a*, b*) is not constant in tau2: {diff.round(4).tolist()}", "input": inp})
        return
    col.add(None)


def two_smooths_case(col, rng):
    """two non-parametric smooths in ONE model (location and scale predictor) with different penalties, hyper-parameters and coefficients: each
    variance kernel draws from ITS OWN full conditional, whichever kernel ran first"""
    n, p, q = 15, 5, 4
    b = DistRegBuilder()
    b.add_response(rng.normal(size=n).astype(np.float32), tfd.Normal)
    b.add_predictor("loc", tfb.Identity)
    b.add_predictor("scale", tfb.Exp)
    K1 = (np.diff(np.eye(p), n=2, axis=0).T @ np.diff(np.eye(p), n=2, axis=0)).astype(np.float32)
    K2 = (3.0 * np.eye(q)).astype(np.float32)
    b.add_np_smooth(rng.normal(size=(n, p)).astype(np.float32), K1, a=0.5, b=0.3, predictor="loc", name="sloc")
    b.add_np_smooth((0.1 * rng.normal(size=(n, q))).astype(np.float32), K2, a=4.0, b=2.5, predictor="scale", name="sscale")
    model = b.build_model()
    model.vars["sloc_beta"].value = jnp.asarray(rng.normal(size=p), jnp.float32)
    model.vars["sscale_beta"].value = jnp.asarray(0.3 * rng.normal(size=q), jnp.float32)
    iface = gs.LieselInterface(model)
    kernels = {}
    for nm in ("sscale", "sloc"):
        kernels[nm] = tau2_gibbs_kernel(model.groups()[nm])
        kernels[nm].set_model(iface)
    state = model.state
    bad = None
    for nm, K in (("sscale", K2), ("sloc", K1), ("sscale", K2)):
        a, bb = float(model.vars[f"{nm}_a"].value), float(model.vars[f"{nm}_b"].value)
        beta = np.asarray(model.vars[f"{nm}_beta"].value, np.float64)
        a_star, b_star = a + np.linalg.matrix_rank(K) / 2, bb + 0.5 * beta @ K.astype(np.float64) @ beta
        key = jax.random.PRNGKey(int(rng.integers(0, 2**31)))
        draw = float(kernels[nm]._transition_fn(key, state)[f"{nm}_tau2"])
        want = b_star / float(jax.random.gamma(key, jnp.float32(a_star)))
        if not np.isclose(draw, want, rtol=2e-3):
            bad = f"smooth {nm}: draw {draw}, but its own full conditional IG(a*={a_star}, b*={b_star}) with that key gives {want}"
            break
    col.add(None if bad is None else {"sig": "native::gibbs::tau2_two_smooths", "what": bad, "input": {"smooths": ["sloc (loc, rank-deficient RW2 penalty, a=0.5, b=0.3)", "sscale (scale, 3*I, a=4, b=2.5)"]}})


def model_conditional_case(col, seed):
    """the kernel against THE MODEL in binary64 (a fresh interpreter with JAX_ENABLE_X64=1: in binary32 the quadratic form of coefficients with a large
    null-space component is rounding noise), see rtc/c13_x64.py"""
    import json, os, subprocess, sys
    env = dict(os.environ, JAX_ENABLE_X64="1", JAX_PLATFORMS="cpu")
    p_ = subprocess.run([sys.executable, "-m", "rtc.c13_x64", str(seed)], capture_output=True, text=True, env=env, cwd=os.path.dirname(os.path.dirname(os.path.abspath(__file__))), timeout=600)
    lines = [l for l in p_.stdout.splitlines() if l.startswith("RESULT ")]
    if not lines:
        col.add({"sig": "native::gibbs::x64_probe_failed", "what": p_.stderr[-300:], "input": {"seed": seed}})
        return
    for r in json.loads(lines[0][7:]):
        col.add(r)


def dist_reg_mcmc_kernels_case(col, rng):
    """the variance kernels as the convenience entry point lsl.dist_reg_mcmc builds them (not tau2_gibbs_kernel called by hand): with two non-parametric smooths of
    different penalties / hyper-parameters / coefficients each kernel draws from ITS OWN smooth's full conditional"""
    n, p, q = 15, 5, 4
    b = DistRegBuilder()
    b.add_response(rng.normal(size=n).astype(np.float32), tfd.Normal)
    b.add_predictor("loc", tfb.Identity)
    b.add_predictor("scale", tfb.Exp)
    K1 = (np.diff(np.eye(p), n=2, axis=0).T @ np.diff(np.eye(p), n=2, axis=0)).astype(np.float32)
    K2 = (3.0 * np.eye(q)).astype(np.float32)
    b.add_np_smooth(rng.normal(size=(n, p)).astype(np.float32), K1, a=0.5, b=0.3, predictor="loc", name="sloc")
    b.add_p_smooth(np.ones((n, 1), np.float32), m=0.0, s=10.0, predictor="loc", name="ploc")
    b.add_np_smooth((0.1 * rng.normal(size=(n, q))).astype(np.float32), K2, a=4.0, b=2.5, predictor="scale", name="sscale")
    model = b.build_model()
    model.vars["sloc_beta"].value = jnp.asarray(rng.normal(size=p), jnp.float32)
    model.vars["sscale_beta"].value = jnp.asarray(0.3 * rng.normal(size=q), jnp.float32)
    import liesel.model as lsl_
    builder = lsl_.dist_reg_mcmc(model, seed=1, num_chains=1)
    gibbs = {k.position_keys[0]: k for k in builder.kernels if type(k).__name__ == "GibbsKernel"}
    iface = gs.LieselInterface(model)
    state = model.state
    bad = None
    if sorted(gibbs) != ["sloc_tau2", "sscale_tau2"]:
        bad = f"dist_reg_mcmc built Gibbs kernels for {sorted(gibbs)}, the model has the smoothing variances ['sloc_tau2', 'sscale_tau2']"
    for nm, K in (("sscale", K2), ("sloc", K1)):
        if bad:
            break
        k = gibbs[f"{nm}_tau2"]
        k.set_model(iface)
        a, bb = float(model.vars[f"{nm}_a"].value), float(model.vars[f"{nm}_b"].value)
        beta = np.asarray(model.vars[f"{nm}_beta"].value, np.float64)
        a_star, b_star = a + np.linalg.matrix_rank(K) / 2, bb + 0.5 * beta @ K.astype(np.float64) @ beta
        key = jax.random.PRNGKey(int(rng.integers(0, 2**31)))
        draw = float(k._transition_fn(key, state)[f"{nm}_tau2"])
        want = b_star / float(jax.random.gamma(key, jnp.float32(a_star)))
        if not np.isclose(draw, want, rtol=2e-3):
            bad = f"kernel of {nm}_tau2 built by dist_reg_mcmc: draw {draw}, its own full conditional IG(a*={a_star}, b*={b_star:.4f}) with that key gives {want}"
    col.add(None if bad is None else {"sig": "native::gibbs::tau2_kernels_of_dist_reg_mcmc", "what": bad, "input": {"smooths": ["sloc (np, RW2 penalty, a=.5, b=.3)", "ploc (parametric)", "sscale (np, 3*I, a=4, b=2.5)"]}})


def discrete_case(col, rng):
    values = [0.0, 1.0, 2.5]
    probs = [0.2, 0.5, 0.3]
    grid = lsl.Var(values, name="grid")
    k = lsl.Var(values[0], lsl.Dist(tfd.FiniteDiscrete, outcomes=grid, probs=probs), name="k")
    m = lsl.param(np.float32(0.3), lsl.Dist(tfd.Normal, loc=0.0, scale=2.0), name="m")
    loc = lsl.Var(lsl.Calc(lambda kk, mm: kk * 1.5 + mm, k, m), name="loc")
    y = lsl.obs(rng.normal(size=4).astype(np.float32) + 1.5, lsl.Dist(tfd.Normal, loc=loc, scale=0.8), name="y")
    model = lsl.GraphBuilder().add(y).build_model()
    kernel = finite_discrete_gibbs_kernel("k", model)
    # building the kernel must leave the user's model as it was: values assigned to it afterwards still refresh what depends on them
    model.vars["m"].value = np.float32(0.9)
    stale = [n.name for n in model.nodes.values() if n.outdated]
    if not model.auto_update or stale or float(model.vars["loc"].value) != float(values[0] * 1.5 + np.float32(0.9)):
        col.add({"sig": "native::gibbs::finite_discrete_side_effect", "what": f"after finite_discrete_gibbs_kernel('k', model): model.auto_update = {model.auto_update}; assigning m = 0.9 leaves outdated nodes {stale}, "
                 f"loc = {float(model.vars['loc'].value)}", "input": {"outcomes": values}})
        return
    model.vars["m"].value = np.float32(0.3)
    before = float(model.vars["m"].value)
    work = lsl.GraphBuilder().add(*[]).build_model() if False else None
    model2 = model  # coherent state with another m
    iface = gs.LieselInterface(model)
    state = iface.update_state({"m": jnp.float32(-0.7), "k": jnp.float32(1.0)}, model.state)
    key = jax.random.PRNGKey(int(rng.integers(0, 2**31)))
    out = kernel._transition_fn(key, state)
    logits = np.array([float(iface.log_prob(iface.update_state({"k": jnp.float32(v)}, state))) for v in values])
    want = values[int(jax.random.categorical(key, jnp.asarray(logits, jnp.float32)))]
    # the categorical draw depends on logits only up to float error; compare through probabilities as well
    jit_out = jax.jit(kernel._transition_fn)(key, state)
    ok = float(out["k"]) == want and float(jit_out["k"]) == want and float(model.vars["m"].value) == before
    col.add(None if ok else {"sig": "native::gibbs::finite_discrete", "what": f"draw {float(out['k'])} (jit {float(jit_out['k'])}) but outcomes[categorical(key, joint log-densities {logits.round(3).tolist()})] = {want}",
                             "input": {"outcomes": values}})


def dependent_prior_case(col, rng):
    """the discrete variable also parameterises the PRIOR of another (non-observed) variable (spike-and-slab / discrete scale);
    the logits handed to the categorical sampler are compared with the joint log-density up to one additive constant."""
    values = [0.25, 1.0, 3.0]
    grid = lsl.Var(values, name="grid")
    k = lsl.Var(values[1], lsl.Dist(tfd.FiniteDiscrete, outcomes=grid, probs=[0.3, 0.3, 0.4]), name="k")
    beta = lsl.param(np.float32(1.7), lsl.Dist(tfd.Normal, loc=0.0, scale=k), name="beta")
    free = lsl.Var(np.float32(0.4), lsl.Dist(tfd.Normal, loc=k, scale=1.5), name="free")  # neither observed nor parameter
    y = lsl.obs(rng.normal(size=3).astype(np.float32), lsl.Dist(tfd.Normal, loc=beta, scale=1.0), name="y")
    # ... and a residual res = 2.2 - k ~ N(0, 0.7): the variable enters that density only through the point of evaluation
    res = lsl.Var(lsl.Calc(lambda kk: 2.2 - kk, k), lsl.Dist(tfd.Normal, loc=0.0, scale=0.7), name="res")
    model = lsl.GraphBuilder().add(y, free, res).build_model()
    kernel = finite_discrete_gibbs_kernel("k", model)
    iface = gs.LieselInterface(model)
    state = iface.update_state({"beta": jnp.float32(-0.9), "free": jnp.float32(1.1), "k": jnp.float32(0.25)}, model.state)
    joint = np.array([float(iface.log_prob(iface.update_state({"k": jnp.float32(v)}, state))) for v in values], dtype=np.float64)
    seen = []
    orig = jax.random.categorical

    def spy(key, logits, *a, **kw):
        seen.append(np.asarray(logits, dtype=np.float64))
        return orig(key, logits, *a, **kw)

    jax.random.categorical = spy
    try:
        keys = [jax.random.PRNGKey(int(rng.integers(0, 2**31))) for _ in range(6)]
        draws = [float(kernel._transition_fn(kk, state)["k"]) for kk in keys]
    finally:
        jax.random.categorical = orig
    inp = {"outcomes": values, "discrete_variable_feeds": ["prior of parameter beta", "distribution of unflagged variable free", "evaluation point of the density of the residual res = 2.2 - k"]}
    if seen:
        lg = seen[0]
        if lg.shape != (3,) or not np.allclose(lg - lg[0], joint - joint[0], atol=1e-3):
            col.add({"sig": "native::gibbs::finite_discrete_dependent_prior", "what": f"logits {np.round(lg - lg[0], 3).tolist()} (relative to the first outcome) are not the joint log-density "
                     f"{np.round(joint - joint[0], 3).tolist()} as a function of the variable alone", "input": inp})
            return
    want = [values[int(orig(kk, jnp.asarray(joint, jnp.float32)))] for kk in keys]
    col.add(None if draws == want else {"sig": "native::gibbs::finite_discrete_dependent_prior", "what": f"draws {draws} differ from outcomes[categorical(key, joint log-densities)] = {want}", "input": inp})


def large_grid_case(col, rng, n_out):
    """an outcome grid with many points (150 / 128 / 300): one category per outcome - the logits handed to the categorical sampler are the joint
    log-density at each outcome (up to a constant), nothing more and nothing less, and the draw is outcomes[index]"""
    values = np.linspace(-3.0, 3.0, n_out).astype(np.float32)
    probs = np.exp(-0.5 * (values / 2.0) ** 2)
    probs = (probs / probs.sum()).astype(np.float32)
    grid = lsl.Var(values, name="grid")
    k = lsl.Var(values[0], lsl.Dist(tfd.FiniteDiscrete, outcomes=grid, probs=probs), name="k")
    y = lsl.obs(np.array([2.6, 3.1], np.float32), lsl.Dist(tfd.Normal, loc=k, scale=1.0), name="y")
    model = lsl.GraphBuilder().add(y).build_model()
    kernel = finite_discrete_gibbs_kernel("k", model)
    iface = gs.LieselInterface(model)
    state = model.state
    joint = np.array([float(iface.log_prob(iface.update_state({"k": jnp.float32(v)}, state))) for v in values], dtype=np.float64)
    seen = []
    orig = jax.random.categorical

    def spy(key, logits, *a, **kw):
        seen.append(np.asarray(logits, dtype=np.float64))
        return orig(key, logits, *a, **kw)

    jax.random.categorical = spy
    try:
        key = jax.random.PRNGKey(int(rng.integers(0, 2**31)))
        draw = float(kernel._transition_fn(key, state)["k"])
    finally:
        jax.random.categorical = orig
    inp = {"number_of_outcomes": n_out}
    if not seen or seen[0].shape != (n_out,) or not np.allclose(seen[0] - seen[0][0], joint - joint[0], atol=2e-3):
        shp = seen[0].shape if seen else None
        col.add({"sig": "native::gibbs::finite_discrete_large_grid", "what": f"{n_out} outcomes: the categorical sampler received logits of shape {shp}; expected one logit per outcome equal to the joint log-density "
                 "(up to a constant)", "input": inp})
        return
    want = float(values[int(orig(key, jnp.asarray(seen[0], jnp.float32)))])
    col.add(None if draw == want else {"sig": "native::gibbs::finite_discrete_large_grid", "what": f"{n_out} outcomes: draw {draw}, outcomes[categorical(key, logits)] = {want}", "input": inp})


def logits_prior_case(col, rng):
    """the outcome grid taken from a FiniteDiscrete prior given by LOGITS, one of them very negative (-120: prior probability 0 in float32, log-probability finite)
    and compensated by the likelihood: the kernel still evaluates EVERY outcome of the prior - one logit per outcome, equal to the joint log-density"""
    values = np.array([0.0, 1.0, 2.0], np.float32)
    k = lsl.Var(jnp.float32(0.0), lsl.Dist(tfd.FiniteDiscrete, outcomes=jnp.asarray(values), logits=jnp.asarray([0.0, -120.0, -1.0], jnp.float32)), name="k")
    y = lsl.obs(jnp.float32(1.0), lsl.Dist(tfd.Normal, loc=lsl.Calc(lambda kk: jnp.asarray(kk, jnp.float32), k), scale=jnp.float32(0.0645)), name="y")  # log N(1 | 0, s) - log N(1 | 1, s) = -120.2
    model = lsl.GraphBuilder().add(y).build_model()
    kernel = finite_discrete_gibbs_kernel("k", model)  # outcomes=None: taken from the prior
    iface = gs.LieselInterface(model)
    state = model.state
    joint = np.array([float(iface.log_prob(iface.update_state({"k": jnp.float32(v)}, state))) for v in values], dtype=np.float64)
    seen = []
    orig = jax.random.categorical

    def spy(key, logits, *a, **kw):
        seen.append(np.asarray(logits, dtype=np.float64))
        return orig(key, logits, *a, **kw)

    jax.random.categorical = spy
    try:
        draws = [float(kernel._transition_fn(jax.random.PRNGKey(int(rng.integers(0, 2**31))), state)["k"]) for _ in range(40)]
    finally:
        jax.random.categorical = orig
    ok = bool(seen) and seen[0].shape == (3,) and np.allclose(seen[0] - seen[0][0], joint - joint[0], atol=5e-2) and 1.0 in draws
    col.add(None if ok else {"sig": "native::gibbs::finite_discrete_logits_prior", "what": f"prior logits [0, -120, -1] with a likelihood favouring the middle outcome by +120: the sampler received logits of shape "
                             f"{seen[0].shape if seen else None} (joint log-densities {np.round(joint - joint[0], 2).tolist()}); outcome 1.0 drawn {draws.count(1.0)} times in 40",
                             "input": {"outcomes": values.tolist(), "prior_logits": [0.0, -120.0, -1.0]}})


def tiny_scale_case(col, rng):
    """a full conditional with real mass far below float32 eps (b = 2e-8, beta in the null space of the penalty): the draw for a fixed key is
    still b*/gamma(key, a*) - no floor or cap on the drawn variance"""
    n, p = 12, 5
    b = DistRegBuilder()
    b.add_response(rng.normal(size=n).astype(np.float32), tfd.Normal)
    b.add_predictor("loc", tfb.Identity)
    b.add_predictor("scale", tfb.Exp)
    D = np.diff(np.eye(p), n=2, axis=0)
    K = (D.T @ D).astype(np.float32)
    b.add_np_smooth(rng.normal(size=(n, p)).astype(np.float32), K, a=1.0, b=2e-8, predictor="loc", name="f")
    model = b.build_model()
    kernel = tau2_gibbs_kernel(model.groups()["f"])
    model.vars["f_beta"].value = jnp.asarray(np.arange(p) * 0.5, jnp.float32)  # linear: in the null space of the second-difference penalty
    state = model.state
    bad = None
    for _ in range(6):
        key = jax.random.PRNGKey(int(rng.integers(0, 2**31)))
        draw = float(kernel._transition_fn(key, state)["f_tau2"])
        a_star, b_star = 1.0 + np.linalg.matrix_rank(K) / 2, 2e-8
        want = b_star / float(jax.random.gamma(key, jnp.float32(a_star)))
        if not np.isclose(draw, want, rtol=5e-3):
            bad = f"draw {draw!r} but b*/gamma(key, a*) with a* = {a_star}, b* = {b_star} gives {want!r}"
            break
    col.add(None if bad is None else {"sig": "native::gibbs::tau2_tiny_scale", "what": bad, "input": {"b": 2e-8, "beta": "linear (null space of the penalty)"}})


def wrapper_case(col, rng):
    """through GibbsKernel.transition (not just the inner transition function): the value stored in the returned state is the draw itself,
    also when the variable's CURRENT value has another dtype (an integer start value for tau2 / a discrete variable with fractional outcomes)"""
    n, p = 12, 4
    b = DistRegBuilder()
    b.add_response(rng.normal(size=n).astype(np.float32), tfd.Normal)
    b.add_predictor("loc", tfb.Identity)
    b.add_predictor("scale", tfb.Exp)
    b.add_np_smooth(rng.normal(size=(n, p)).astype(np.float32), np.eye(p, dtype=np.float32), a=2.0, b=1.5, predictor="loc", name="f")
    model = b.build_model()
    kernel = tau2_gibbs_kernel(model.groups()["f"])
    model.vars["f_tau2"].value = 1  # integer start value
    iface = gs.LieselInterface(model)
    kernel.set_model(iface)
    kernel.identifier = "g"
    from liesel.goose.epoch import EpochConfig, EpochType
    ep = EpochConfig(EpochType.POSTERIOR, 5, 1, None).to_state(1, 0)
    bad = None
    for i in range(4):
        key = jax.random.PRNGKey(int(rng.integers(0, 2**31)))
        state = model.state
        want = float(kernel._transition_fn(key, state)["f_tau2"])
        out = kernel.transition(key, {}, state, ep)
        got = float(np.asarray(out.model_state["f_tau2_value"].value))
        if not np.isclose(got, want, rtol=1e-6):
            bad = f"GibbsKernel.transition stored tau2 = {got}, the full-conditional draw for this key is {want}"
            break
    col.add(None if bad is None else {"sig": "native::gibbs::wrapper_changes_draw", "what": bad, "input": {"start_value_of_tau2": "integer 1"}})
    # discrete variable with fractional outcomes and an integer start value
    grid = lsl.Var([0.0, 0.5, 1.0, 1.5], name="grid")
    k_ = lsl.Var(1, lsl.Dist(tfd.FiniteDiscrete, outcomes=grid, probs=[0.1, 0.4, 0.3, 0.2]), name="k")
    y = lsl.obs(np.float32(0.4), lsl.Dist(tfd.Normal, loc=k_, scale=1.0), name="y")
    m2 = lsl.GraphBuilder().add(y).build_model()
    kd = finite_discrete_gibbs_kernel("k", m2)
    if2 = gs.LieselInterface(m2)
    kd.set_model(if2)
    kd.identifier = "d"
    bad = None
    for i in range(6):
        key = jax.random.PRNGKey(int(rng.integers(0, 2**31)))
        want = float(kd._transition_fn(key, m2.state)["k"])
        got = float(np.asarray(kd.transition(key, {}, m2.state, ep).model_state["k_value"].value))
        if got != want:
            bad = f"GibbsKernel.transition stored k = {got}, the draw for this key is {want}"
            break
    col.add(None if bad is None else {"sig": "native::gibbs::wrapper_changes_draw", "what": bad, "input": {"start_value_of_k": "integer 1", "outcomes": [0.0, 0.5, 1.0, 1.5]}})


def bernoulli_case(col, rng, explicit):
    """Bernoulli variable (outcomes derived from the distribution, or given explicitly in a non-sorted order)"""
    z = lsl.Var(np.int32(1), lsl.Dist(tfd.Bernoulli, probs=0.3), name="z")
    m = lsl.param(np.float32(0.3), lsl.Dist(tfd.Normal, loc=0.0, scale=2.0), name="m")
    loc = lsl.Var(lsl.Calc(lambda zz, mm: zz * 2.0 + mm, z, m), name="loc")
    y = lsl.obs(rng.normal(size=3).astype(np.float32) + 1.0, lsl.Dist(tfd.Normal, loc=loc, scale=0.7), name="y")
    model = lsl.GraphBuilder().add(y).build_model()
    outcomes = [1, 0] if explicit else None
    kernel = finite_discrete_gibbs_kernel("z", model, outcomes=outcomes)
    vals = outcomes if explicit else [0, 1]
    iface = gs.LieselInterface(model)
    state = iface.update_state({"m": jnp.float32(0.9), "z": jnp.int32(0)}, model.state)
    bad = None
    for _ in range(4):
        key = jax.random.PRNGKey(int(rng.integers(0, 2**31)))
        out = kernel._transition_fn(key, state)
        logits = np.array([float(iface.log_prob(iface.update_state({"z": jnp.int32(v)}, state))) for v in vals])
        want = vals[int(jax.random.categorical(key, jnp.asarray(logits, jnp.float32)))]
        if int(out["z"]) != want:
            bad = {"sig": "native::gibbs::finite_discrete_bernoulli", "what": f"draw {int(out['z'])} but outcomes[categorical(key, joint log-densities {logits.round(3).tolist()})] = {want}",
                   "input": {"outcomes": vals, "explicit": explicit}}
    col.add(bad)


def extreme_odds_case(col, rng):
    """two-outcome variables whose full conditional is (numerically) a point mass on the SECOND outcome - overwhelming evidence (log-odds ~ 270), or zero prior
    mass on the first outcome: every draw is the second outcome, whatever the key (and with the evidence reversed, the first)"""
    bad = []
    for scen in ("strong_evidence_for_second", "strong_evidence_for_first", "zero_prior_mass_on_first"):
        if scen == "zero_prior_mass_on_first":
            z = lsl.Var(np.float32(1.0), lsl.Dist(tfd.FiniteDiscrete, outcomes=lsl.Var(np.array([0.0, 1.0], np.float32), name="grid"), probs=np.array([0.0, 1.0], np.float32)), name="z")
            ydata = rng.normal(size=5).astype(np.float32)
            want = 1.0
        else:
            z = lsl.Var(np.int32(0), lsl.Dist(tfd.Bernoulli, probs=0.5), name="z")
            want = 1.0 if scen.endswith("second") else 0.0
            ydata = (rng.normal(size=60) + 3.0 * want).astype(np.float32)
        loc = lsl.Var(lsl.Calc(lambda zz: 3.0 * zz, z), name="loc")
        y = lsl.obs(ydata, lsl.Dist(tfd.Normal, loc=loc, scale=1.0), name="y")
        model = lsl.GraphBuilder().add(y).build_model()
        kernel = finite_discrete_gibbs_kernel("z", model)
        state = model.state
        draws = [float(kernel._transition_fn(jax.random.PRNGKey(k), state)["z"]) for k in range(8)]
        if any(d != want for d in draws):
            bad.append(f"{scen}: draws {draws} for 8 keys, the full conditional puts (numerically) all its mass on {want}")
    col.add(None if not bad else {"sig": "native::gibbs::finite_discrete_extreme_odds", "what": "; ".join(bad), "input": {"scenarios": ["Bernoulli(0.5) indicator shifting the mean of 60 N(., 1) observations by 3", "FiniteDiscrete([0, 1], probs [0, 1])"]}})


def bounded(tier, seed):
    rng = np.random.default_rng(seed)
    col = util.Collector()
    from rtc.c01 import CORE_RULE, core_native
    core_native(col, seed)
    reps = 1 if tier == "quick" else 5
    n = 0
    for _ in range(reps):
        for change_a in (False, True):
            for rank_def in (True, False):
                try:
                    tau2_case(col, rng, change_a, rank_def)
                except Exception as e:
                    col.add({"sig": f"native::gibbs::exception::{type(e).__name__}", "what": str(e)[:200], "input": {"change_a": change_a, "rank_deficient": rank_def}})
                n += 1
        for kw in ({"scale": 1e-7}, {"tiny_eig": True}):
            try:
                tau2_case(col, rng, False, "scale" in kw, **kw)
            except Exception as e:
                col.add({"sig": f"native::gibbs::exception::{type(e).__name__}", "what": str(e)[:200], "input": kw})
            n += 1
        for n_out in (150, 128) if tier == "quick" else (150, 128, 129, 300, 1000):
            try:
                large_grid_case(col, rng, n_out)
            except Exception as e:
                col.add({"sig": f"native::gibbs::exception::{type(e).__name__}", "what": str(e)[:200], "input": {"scenario": "large outcome grid", "n": n_out}})
            n += 1
        try:
            logits_prior_case(col, rng)
        except Exception as e:
            col.add({"sig": f"native::gibbs::exception::{type(e).__name__}", "what": str(e)[:200], "input": {"scenario": "logits prior"}})
        n += 1
        try:
            model_conditional_case(col, seed)
        except Exception as e:
            col.add({"sig": f"native::gibbs::exception::{type(e).__name__}", "what": str(e)[:200], "input": {"scenario": "kernel vs model density (binary64 process)"}})
        n += 2
        try:
            dist_reg_mcmc_kernels_case(col, rng)
        except Exception as e:
            col.add({"sig": f"native::gibbs::exception::{type(e).__name__}", "what": str(e)[:200], "input": {"scenario": "kernels built by dist_reg_mcmc"}})
        n += 1
        try:
            two_smooths_case(col, rng)
        except Exception as e:
            col.add({"sig": f"native::gibbs::exception::{type(e).__name__}", "what": str(e)[:200], "input": {"scenario": "two smooths in one model"}})
        n += 1
        try:
            discrete_case(col, rng)
        except Exception as e:
            col.add({"sig": f"native::gibbs::exception::{type(e).__name__}", "what": str(e)[:200], "input": {"kernel": "finite_discrete"}})
        n += 1
        try:
            tiny_scale_case(col, rng)
        except Exception as e:
            col.add({"sig": f"native::gibbs::exception::{type(e).__name__}", "what": str(e)[:200], "input": {"scenario": "tiny inverse-gamma scale"}})
        n += 1
        try:
            wrapper_case(col, rng)
        except Exception as e:
            col.add({"sig": f"native::gibbs::exception::{type(e).__name__}", "what": str(e)[:200], "input": {"scenario": "GibbsKernel.transition with integer start values"}})
        n += 2
        try:
            dependent_prior_case(col, rng)
        except Exception as e:
            col.add({"sig": f"native::gibbs::exception::{type(e).__name__}", "what": str(e)[:200], "input": {"kernel": "finite_discrete", "dependent_prior": True}})
        n += 1
        try:
            extreme_odds_case(col, rng)
        except Exception as e:
            col.add({"sig": f"native::gibbs::exception::{type(e).__name__}", "what": str(e)[:200], "input": {"kernel": "finite_discrete", "scenario": "extreme odds"}})
        n += 3
        for explicit in (False, True):
            try:
                bernoulli_case(col, rng, explicit)
            except Exception as e:
                col.add({"sig": f"native::gibbs::exception::{type(e).__name__}", "what": str(e)[:200], "input": {"kernel": "finite_discrete", "bernoulli": True, "explicit": explicit}})
            n += 1
    return {"evaluations": col.evals, "distinct_nontrivial": n,
            "rule": (CORE_RULE + "; " + f"BOUNDED: DistRegBuilder models with a full-rank and a rank-deficient (second-difference) penalty, hyperparameters a, b left as built or changed AFTER the kernel was created, plus a penalty scaled by 1e-7 and a full-rank penalty with one eigenvalue of 1e-8 (rank by matrix_rank vs. eigenvalue thresholds): "
                     "the inverse-gamma shape and scale solved from three evaluations of the MODEL's log-density in tau2 (coefficients 100 + noise, b = 0.001, first-difference and full-rank penalty) against the scale the kernel's draws reveal (fresh binary64 interpreter process); "
                     "the kernel's draw for a fixed key equals b*/gamma(key, a*) with a* = a + rank/2, b* = b + beta'K beta/2 from the state, and model log-density minus log IG(a*, b*) is constant "
                     "over a tau2 grid; two smooths with different penalties and hyper-parameters in one model, kernels used in both orders, and the same with the kernels as lsl.dist_reg_mcmc builds them; finite-discrete kernel with the grid taken from a logits-parameterised prior with a float32-zero-probability outcome; finite-discrete kernel on outcome grids of 150 / 128 points (one logit per outcome, captured at the sampler); finite-discrete kernel on k ~ FiniteDiscrete with a downstream Normal likelihood: draw = outcomes[categorical(key, joint log-densities)], eager and jit; a model in which the discrete variable parameterises the prior of a parameter and the distribution of an unflagged variable (logits captured at jax.random.categorical and compared with the joint log-density up to a constant); the same for a Bernoulli variable with derived and with explicitly given (unsorted) outcomes; two-outcome variables whose full conditional is numerically a point mass (log-odds ~ +-270, zero prior mass on the first outcome): all draws equal that outcome. "
                     f"Both kernels also through GibbsKernel.transition with integer start values (stored value = draw). The sampling distributions themselves are not tested (sampler primitives trusted). seed={seed}, {reps} repetition(s)."),
            "samples": [{"hyperparameters_changed_after_kernel_creation": True, "rank_deficient": True}], "exhaustive": False, "violations": col.violations}

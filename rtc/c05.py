"""C05 bounded stand-in + native replay: the real mh_step on a boundary grid of binary32 values."""
from __future__ import annotations

import itertools
import math
import struct

import jax
import jax.numpy as jnp
import numpy as np

from rtc import util  # noqa: F401
from liesel.goose.interface import DictInterface
from liesel.goose.mh import mh_step

ZERO_KEY_SEED = 14620119  # jax.random.uniform(PRNGKey(14620119)) == 0.0 (threefry, re-verified below)


def keys_pool():
    ks = [jax.random.PRNGKey(s) for s in (ZERO_KEY_SEED, 0, 1, 2, 3, 4, 5, 6)]
    us = [float(jax.random.uniform(k)) for k in ks]
    return ks, us


def run_grid(cur, prop, corr, keys):
    """vectorised call of the REAL mh_step; the model state carries its own log-prob."""
    model = DictInterface(lambda s: s["lp"])

    def one(key, c, p, k):
        state = {"x": jnp.float32(0.0), "lp": c}
        proposal = {"x": jnp.float32(1.0), "lp": p}
        info, new = mh_step(key, model, proposal, state, k)
        return info.error_code, info.acceptance_prob, info.position_moved, new["x"], new["lp"]

    return jax.jit(jax.vmap(one))(keys, cur, prop, corr)


def check_case(c, p, k, u, code, prob, moved, newx, newlp):
    """the C05 statement on one concrete transition (numpy float32 arithmetic for the ratio)"""
    with np.errstate(all="ignore"):
        r = np.float32(np.float32(p) - np.float32(c)) + np.float32(k)
    inp = {"current_log_prob": repr(float(c)), "proposed_log_prob": repr(float(p)), "log_correction": repr(float(k)), "uniform": repr(float(u))}
    moved = bool(moved)
    if not (0.0 <= prob <= 1.0):
        return {"sig": "native::mh_step::prob_range", "what": f"acceptance_prob={prob!r} outside [0,1]", "input": inp}
    if math.isnan(r):
        if code != 90:
            return {"sig": "native::mh_step::nan_code", "what": f"NaN ratio reported with code {code}", "input": inp}
        if moved or prob != 0.0:
            return {"sig": "native::mh_step::nan_accepted", "what": f"NaN ratio: moved={moved}, prob={prob}", "input": inp}
    else:
        if code != 0:
            return {"sig": "native::mh_step::code", "what": f"defined ratio reported with code {code}", "input": inp}
        if r >= 0 and prob != 1.0:
            return {"sig": "native::mh_step::prob_one", "what": f"log ratio {r} >= 0 but prob={prob}", "input": inp}
        if r == -math.inf and prob != 0.0:
            return {"sig": "native::mh_step::prob_zero", "what": f"log ratio -inf but prob={prob}", "input": inp}
    if moved and not (u < prob):
        return {"sig": "native::mh_step::accept_only_if_u_below_p", "what": f"accepted although u={u!r} is not below p={prob!r}", "input": inp}
    if prob == 0.0 and moved:
        return {"sig": "native::mh_step::zero_prob_accepted", "what": "proposal with probability 0 accepted", "input": inp}
    if prob == 1.0 and not moved:
        return {"sig": "native::mh_step::one_prob_rejected", "what": "proposal with probability 1 rejected", "input": inp}
    if moved != (u < prob):
        return {"sig": "native::mh_step::accept_iff", "what": f"moved={moved} but u<p is {u < prob}", "input": inp}
    want_x = 1.0 if moved else 0.0
    want_lp = p if moved else c
    same_lp = (math.isnan(want_lp) and math.isnan(newlp)) or float(want_lp) == float(newlp)
    if float(newx) != want_x or not same_lp:
        return {"sig": "native::mh_step::state", "what": f"moved={moved} but returned state x={newx}, lp={newlp}", "input": inp}
    return None


GRID = [-math.inf, -3.0e38, -1.0e30, -50.0, -1.0, -1e-30, -0.0, 0.0, 1e-45, 1e-30, 0.5, 1.0, 88.0, 1.0e30, 3.0e38, math.inf, math.nan]


def bounded(tier, seed):
    ks, us = keys_pool()
    col = util.Collector()
    if us[0] != 0.0:
        col.add({"sig": "native::infrastructure::zero_key", "what": f"PRNGKey({ZERO_KEY_SEED}) no longer draws 0.0 (got {us[0]})", "input": {}})
    grid = GRID if tier != "quick" else [g for g in GRID if g not in (-3.0e38, 1e-45, 88.0, 3.0e38, -1e-30)]
    cases = [(c, p, k, i) for c in grid for p in grid for k in grid for i in range(len(ks) if tier != "quick" else 3)]
    rng = np.random.default_rng(seed)
    extra = 2000 if tier == "quick" else 50000
    rnd = rng.normal(size=(extra, 3)).astype(np.float32) * np.float32(3.0)
    cases += [(float(a), float(b), float(d), int(rng.integers(0, len(ks)))) for a, b, d in rnd]
    cur = jnp.array([c[0] for c in cases], dtype=jnp.float32)
    prop = jnp.array([c[1] for c in cases], dtype=jnp.float32)
    corr = jnp.array([c[2] for c in cases], dtype=jnp.float32)
    keys = jnp.stack([ks[c[3]] for c in cases])
    code, prob, moved, newx, newlp = [np.asarray(a) for a in run_grid(cur, prop, corr, keys)]
    distinct = set()
    for j, (c, p, k, i) in enumerate(cases):
        col.add(check_case(np.float32(c), np.float32(p), np.float32(k), us[i], int(code[j]), float(prob[j]), moved[j], float(newx[j]), float(newlp[j])))
        distinct.add((repr(c), repr(p), repr(k), i))
    return {
        "evaluations": col.evals,
        "distinct_nontrivial": len(distinct),
        "rule": (f"BOUNDED: real mh_step (jit+vmap) on the full product of {len(grid)} boundary values (-inf..inf, +-0, subnormal, NaN) for "
                 f"current/proposed log-prob and correction x {len(ks) if tier != 'quick' else 3} PRNG keys incl. PRNGKey({ZERO_KEY_SEED}) whose uniform draw is exactly 0.0, "
                 f"plus {extra} seeded random triples (seed={seed}); a case is distinct by its (cur, prop, corr, key) tuple."),
        "samples": [{"current": "-inf", "proposed": "0.0", "correction": "nan", "key": ZERO_KEY_SEED},
                    {"current": repr(cases[-1][0]), "proposed": repr(cases[-1][1]), "correction": repr(cases[-1][2]), "key_index": cases[-1][3]}],
        "exhaustive": False,
        "violations": col.violations,
    }


def _f(d):
    if isinstance(d, dict) and "fp32" in d:
        return float(d["fp32"])
    return float(d)


def replay(unit_id, obligation, model):
    if unit_id != "C05.mh_step":
        return None
    try:
        c, p, k, u = _f(model["current_log_prob"]), _f(model["proposed_log_prob"]), _f(model["log_correction"]), _f(model["uniform"])
    except (KeyError, TypeError, ValueError):
        return None
    ks, us = keys_pool()
    # choose the key whose draw is closest to the model's u (exactly 0.0 is available)
    order = sorted(range(len(ks)), key=lambda i: abs(us[i] - u))
    for i in order:
        out = run_grid(jnp.array([c], jnp.float32), jnp.array([p], jnp.float32), jnp.array([k], jnp.float32), jnp.stack([ks[i]]))
        code, prob, moved, newx, newlp = [np.asarray(a)[0] for a in out]
        v = check_case(np.float32(c), np.float32(p), np.float32(k), us[i], int(code), float(prob), moved, float(newx), float(newlp))
        if v:
            v["input"]["prng_key"] = f"jax.random.PRNGKey({[ZERO_KEY_SEED, 0, 1, 2, 3, 4, 5, 6][i]})"
            return v
    return None

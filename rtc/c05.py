"""C05 bounded stand-in + native replay: the real mh_step on a boundary grid of binary32 values."""
from __future__ import annotations

import itertools
import math
import struct

import jax
import jax.numpy as jnp
import numpy as np

from rtc import util  # noqa: F401
from liesel.goose.interface import DictInterface
from liesel.goose.mh import mh_step

ZERO_KEY_SEED = 14620119  # jax.random.uniform(PRNGKey(14620119)) == 0.0 (threefry, re-verified below)


def keys_pool():
    ks = [jax.random.PRNGKey(s) for s in (ZERO_KEY_SEED, 0, 1, 2, 3, 4, 5, 6)]
    us = [float(jax.random.uniform(k)) for k in ks]
    return ks, us


def run_grid(cur, prop, corr, keys):
    """vectorised call of the REAL mh_step; the model state carries its own log-prob."""
    model = DictInterface(lambda s: s["lp"])

    def one(key, c, p, k):
        state = {"x": jnp.float32(0.0), "lp": c}
        proposal = {"x": jnp.float32(1.0), "lp": p}
        info, new = mh_step(key, model, proposal, state, k)
        return info.error_code, info.acceptance_prob, info.position_moved, new["x"], new["lp"]

    return jax.jit(jax.vmap(one))(keys, cur, prop, corr)


def check_case(c, p, k, u, code, prob, moved, newx, newlp):
    """the C05 statement on one concrete transition (numpy float32 arithmetic for the ratio)"""
    with np.errstate(all="ignore"):
        r = np.float32(np.float32(p) - np.float32(c)) + np.float32(k)
    inp = {"current_log_prob": repr(float(c)), "proposed_log_prob": repr(float(p)), "log_correction": repr(float(k)), "uniform": repr(float(u))}
    moved = bool(moved)
    if not (0.0 <= prob <= 1.0):
        return {"sig": "native::mh_step::prob_range", "what": f"acceptance_prob={prob!r} outside [0,1]", "input": inp}
    if math.isnan(r):
        if code != 90:
            return {"sig": "native::mh_step::nan_code", "what": f"NaN ratio reported with code {code}", "input": inp}
        if moved or prob != 0.0:
            return {"sig": "native::mh_step::nan_accepted", "what": f"NaN ratio: moved={moved}, prob={prob}", "input": inp}
    else:
        if code != 0:
            return {"sig": "native::mh_step::code", "what": f"defined ratio reported with code {code}", "input": inp}
        if r >= 0 and prob != 1.0:
            return {"sig": "native::mh_step::prob_one", "what": f"log ratio {r} >= 0 but prob={prob}", "input": inp}
        if r == -math.inf and prob != 0.0:
            return {"sig": "native::mh_step::prob_zero", "what": f"log ratio -inf but prob={prob}", "input": inp}
    if moved and not (u < prob):
        return {"sig": "native::mh_step::accept_only_if_u_below_p", "what": f"accepted although u={u!r} is not below p={prob!r}", "input": inp}
    if prob == 0.0 and moved:
        return {"sig": "native::mh_step::zero_prob_accepted", "what": "proposal with probability 0 accepted", "input": inp}
    if prob == 1.0 and not moved:
        return {"sig": "native::mh_step::one_prob_rejected", "what": "proposal with probability 1 rejected", "input": inp}
    if moved != (u < prob):
        return {"sig": "native::mh_step::accept_iff", "what": f"moved={moved} but u<p is {u < prob}", "input": inp}
    want_x = 1.0 if moved else 0.0
    want_lp = p if moved else c
    same_lp = (math.isnan(want_lp) and math.isnan(newlp)) or float(want_lp) == float(newlp)
    if float(newx) != want_x or not same_lp:
        return {"sig": "native::mh_step::state", "what": f"moved={moved} but returned state x={newx}, lp={newlp}", "input": inp}
    return None


GRID = [-math.inf, -3.0e38, -1.0e30, -50.0, -1.0, -1e-30, -0.0, 0.0, 1e-45, 1e-30, 0.5, 1.0, 88.0, 1.0e30, 3.0e38, math.inf, math.nan]


def kernel_cases(col, corrections=(float("nan"), 0.0, -0.5, float("-inf")), light=False):
    """the kernels built on mh_step report what mh_step decides: user-proposal kernel with a given log-correction (NaN included),
    random-walk and IWLS kernels with a target that is NaN / -inf beyond a threshold"""
    import liesel.goose as gs
    from liesel.goose.epoch import EpochConfig, EpochType

    ks, us = keys_pool()
    for etype in ((EpochType.POSTERIOR,) if light else (EpochType.POSTERIOR, EpochType.FAST_ADAPTATION)):
        ep = EpochConfig(etype, 10, 1, None).to_state(1, 0)
        for corr in corrections:
            model = DictInterface(lambda s_: -0.5 * jnp.sum(s_["x"] ** 2))
            k = gs.MHKernel(["x"], lambda key, ms, step, corr=corr: gs.MHProposal({"x": ms["x"] * 0.5}, jnp.float32(corr)))
            k.set_model(model)
            ms = {"x": jnp.array([2.0, -1.0], jnp.float32)}
            for i in ((1,) if light else (0, 1, 2)):
                st = k.init_state(ks[i], ms)
                for tr in (k.transition, jax.jit(k.transition)):
                    o = tr(ks[i], st, ms, ep)
                    sub = jax.random.split(ks[i])[1]
                    u = float(jax.random.uniform(sub))
                    cur, prop = np.float32(-2.5), np.float32(-0.625)
                    newx = np.asarray(o.model_state["x"])
                    moved_state = not np.array_equal(newx, np.asarray(ms["x"]))
                    r = np.float32(prop - cur) + np.float32(corr)
                    want_code = 90 if math.isnan(float(r)) else 0
                    want_p = 0.0 if math.isnan(float(r)) else min(1.0, math.exp(float(r))) if float(r) > -100 else 0.0
                    ok = int(o.info.error_code) == want_code and abs(float(o.info.acceptance_prob) - want_p) < 1e-6 and bool(o.info.position_moved) == moved_state \
                        and (not moved_state or u < want_p) and (want_p < 1.0 or moved_state) and (want_p > 0.0 or not moved_state)
                    col.add(None if ok else {"sig": "native::kernel::mh_kernel_reports_mh_step", "what": f"MHKernel with log-correction {corr}: error_code={int(o.info.error_code)} "
                                             f"acceptance_prob={float(o.info.acceptance_prob)} moved={bool(o.info.position_moved)}; expected code {want_code}, probability {want_p}",
                                             "input": {"kernel": "MHKernel", "log_correction": repr(corr), "epoch": etype.name, "key_index": i}})
        if light:
            continue
        # RW / IWLS: the target is NaN for x > 3: a proposal landing there must be reported with code 90 and rejected
        for kind in ("RW", "IWLS"):
            model = DictInterface(lambda s_: jnp.where(s_["x"] > 3.0, jnp.nan, -0.5 * s_["x"] ** 2))
            k = gs.RWKernel(["x"], initial_step_size=5.0) if kind == "RW" else gs.IWLSKernel(["x"], initial_step_size=2.0)
            k.set_model(model)
            ms = {"x": jnp.float32(2.9)}
            n_nan = 0
            for i in range(1, 8):
                key = jax.random.PRNGKey(100 + i)
                st = k.init_state(key, ms)
                o = k.transition(key, st, ms, ep)
                code, p_, mv = int(o.info.error_code), float(o.info.acceptance_prob), bool(o.info.position_moved)
                x_new = float(o.model_state["x"])
                n_nan += code == 90
                x0 = float(ms["x"])
                ok = (code in (0, 90)) and 0.0 <= p_ <= 1.0 and mv == (x_new != x0) and (code != 90 or (p_ == 0.0 and not mv)) and not (x_new > 3.0)
                col.add(None if ok else {"sig": "native::kernel::kernel_reports_mh_step", "what": f"{kind}: code={code} acceptance_prob={p_} moved={mv} new x={x_new}",
                                         "input": {"kernel": kind, "epoch": etype.name, "key": 100 + i}})


def liesel_two_steps_case(col):
    """mh_step on a Liesel model twice from the SAME state object with proposals for different keys: the second decision must be made on
    state + second proposal only (acceptance probability exactly 0 here), and a rejection returns the input state itself"""
    import liesel.goose as gs
    import liesel.model as lsl
    import tensorflow_probability.substrates.jax.distributions as tfd
    a = lsl.param(np.float32(30.0), lsl.Dist(tfd.Normal, loc=0.0, scale=1.0), name="a")
    b = lsl.param(np.float32(0.0), lsl.Dist(tfd.Normal, loc=0.0, scale=1.0), name="b")
    model = lsl.GraphBuilder().add(a, b).build_model()
    iface = gs.LieselInterface(model)
    S = model.state
    ks, _ = keys_pool()
    info1, s1 = mh_step(ks[1], iface, {"a": jnp.float32(0.0)}, S)
    info2, s2 = mh_step(ks[2], iface, {"b": jnp.float32(20.0)}, S)
    ok = float(info1.acceptance_prob) == 1.0 and float(info2.acceptance_prob) == 0.0 and not bool(info2.position_moved) and float(s2["a_value"].value) == 30.0 and float(s2["b_value"].value) == 0.0
    col.add(None if ok else {"sig": "native::mh_step::liesel_same_state_object", "what": f"second step from the same state: acceptance_prob={float(info2.acceptance_prob)} moved={bool(info2.position_moved)} "
                             f"returned (a, b) = ({float(s2['a_value'].value)}, {float(s2['b_value'].value)}); log-ratio is -200, expected probability 0 and the input state", "input": {"proposals": [{"a": 0.0}, {"b": 20.0}]}})


def rejected_state_case(col):
    """a REJECTED proposal (acceptance probability 0) through every shipped state-passing interface, with an entry whose value is a mutable
    container (dict of arrays): the returned state must equal the input state exactly, and the caller's state object must be unchanged"""
    import collections
    import copy
    import dataclasses
    import liesel.goose as gs

    @dataclasses.dataclass
    class DState:
        params: dict
        lp: float

    jax.tree_util.register_pytree_node(DState, lambda o: ([o.params, o.lp], None), lambda aux, ch: DState(*ch))
    NState = collections.namedtuple("NState", ["params", "lp"])
    ks, _ = keys_pool()
    bad = None
    for name, iface, mk, rd in (
        ("dict", gs.DictInterface(lambda s: s["lp"]), lambda p, lp: {"params": p, "lp": lp}, lambda s: (s["params"], s["lp"])),
        ("dataclass", gs.DataclassInterface(lambda s: s.lp), DState, lambda s: (s.params, s.lp)),
        ("namedtuple", gs.NamedTupleInterface(lambda s: s.lp), NState, lambda s: (s.params, s.lp)),
    ):
        state = mk({"mu": jnp.float32(0.5), "tau": jnp.float32(2.0)}, jnp.float32(0.0))
        before = copy.deepcopy(rd(state))
        info, new = mh_step(ks[1], iface, {"params": {"mu": jnp.float32(7.0), "tau": jnp.float32(9.0)}, "lp": jnp.float32(-jnp.inf)}, state)
        got_p, got_lp = rd(new)
        same = sorted(got_p) == ["mu", "tau"] and float(got_p["mu"]) == 0.5 and float(got_p["tau"]) == 2.0 and float(got_lp) == 0.0
        mine = rd(state)
        untouched = sorted(mine[0]) == sorted(before[0]) and all(float(mine[0][k]) == float(before[0][k]) for k in before[0])
        if bool(info.position_moved) or float(info.acceptance_prob) != 0.0 or not same or not untouched:
            bad = (f"{name} interface: proposal with zero density: moved={bool(info.position_moved)} prob={float(info.acceptance_prob)}; returned params "
                   f"{ {k: float(v) for k, v in got_p.items()} } (input was mu=0.5, tau=2.0); caller's state afterwards { {k: float(v) for k, v in mine[0].items()} }")
            break
    col.add(None if bad is None else {"sig": "native::mh_step::rejected_state_not_the_input_state", "what": bad, "input": {"state_entry": "dict of arrays", "proposal": {"params": {"mu": 7.0, "tau": 9.0}, "lp": "-inf"}}})


def accepted_liesel_state_case(col):
    """an ACCEPTED proposal on a Liesel model with a derived quantity that feeds no distribution (pred = 2 mu + 1): the returned state is the state updated with
    the proposal - every node, nothing outdated (eager and jit)"""
    import liesel.goose as gs
    import liesel.model as lsl
    import tensorflow_probability.substrates.jax.distributions as tfd
    mu = lsl.param(np.float32(0.0), lsl.Dist(tfd.Normal, loc=0.0, scale=10.0), name="mu")
    pred = lsl.Var(lsl.Calc(lambda m: 2.0 * m + 1.0, mu), name="pred")
    y = lsl.obs(np.array([0.9, 1.1], np.float32), lsl.Dist(tfd.Normal, loc=mu, scale=1.0), name="y")
    model = lsl.GraphBuilder().add(y, pred).build_model()
    iface = gs.LieselInterface(model)
    ks, _ = keys_pool()
    bad = None
    for how, fn in (("eager", mh_step), ("jit", jax.jit(mh_step, static_argnums=(1,)))):
        info, new = fn(ks[1], iface, {"mu": jnp.float32(1.0)}, model.state)
        stale = [k for k, v in new.items() if bool(np.asarray(v.outdated))]
        if not bool(info.position_moved) or float(new["pred_value"].value) != 3.0 or float(new["mu_value"].value) != 1.0 or stale:
            bad = f"{how}: proposal mu = 1 (log-ratio > 0, accepted = {bool(info.position_moved)}): returned state has mu = {float(new['mu_value'].value)}, pred = {float(new['pred_value'].value)} (2 mu + 1 = 3), outdated entries {stale}"
            break
    col.add(None if bad is None else {"sig": "native::mh_step::accepted_state_not_fully_updated", "what": bad, "input": {"model": "mu, pred = 2 mu + 1 (feeds no distribution), y ~ N(mu, 1)", "proposal": {"mu": 1.0}}})


def bounded(tier, seed):
    ks, us = keys_pool()
    col = util.Collector()
    try:
        accepted_liesel_state_case(col)
    except Exception as e:
        col.add({"sig": f"native::mh_step::exception::{type(e).__name__}", "what": str(e)[:300], "input": {"scenario": "accepted proposal, derived leaf node"}})
    try:
        rejected_state_case(col)
    except Exception as e:
        col.add({"sig": f"native::mh_step::exception::{type(e).__name__}", "what": str(e)[:300], "input": {"scenario": "rejected proposal, dict-valued entry"}})
    try:
        liesel_two_steps_case(col)
    except Exception as e:
        col.add({"sig": f"native::mh_step::exception::{type(e).__name__}", "what": str(e)[:300], "input": {"scenario": "two steps from one Liesel state object"}})
    try:
        kernel_cases(col)
    except Exception as e:
        col.add({"sig": f"native::kernel::exception::{type(e).__name__}", "what": str(e)[:300], "input": {}})
    try:  # the log-correction the IWLS kernel hands to mh_step (user-supplied, position-dependent information): reported probability = exact MH probability
        from rtc.c06 import kernel_case as _c06_kernel_case
        sub = util.Collector()
        _c06_kernel_case(sub, "iwls_user", seed + 2, 12)
        col.add({**sub.violations[0], "sig": "native::kernel::iwls_correction_user_information"} if sub.violations else None)
    except Exception as e:
        col.add({"sig": f"native::kernel::exception::{type(e).__name__}", "what": str(e)[:300], "input": {"scenario": "IWLS with user-supplied information"}})
    if us[0] != 0.0:
        col.add({"sig": "native::infrastructure::zero_key", "what": f"PRNGKey({ZERO_KEY_SEED}) no longer draws 0.0 (got {us[0]})", "input": {}})
    grid = GRID if tier != "quick" else [g for g in GRID if g not in (-3.0e38, 1e-45, 88.0, 3.0e38, -1e-30)]
    cases = [(c, p, k, i) for c in grid for p in grid for k in grid for i in range(len(ks) if tier != "quick" else 3)]
    rng = np.random.default_rng(seed)
    extra = 2000 if tier == "quick" else 50000
    rnd = rng.normal(size=(extra, 3)).astype(np.float32) * np.float32(3.0)
    cases += [(float(a), float(b), float(d), int(rng.integers(0, len(ks)))) for a, b, d in rnd]
    cur = jnp.array([c[0] for c in cases], dtype=jnp.float32)
    prop = jnp.array([c[1] for c in cases], dtype=jnp.float32)
    corr = jnp.array([c[2] for c in cases], dtype=jnp.float32)
    keys = jnp.stack([ks[c[3]] for c in cases])
    code, prob, moved, newx, newlp = [np.asarray(a) for a in run_grid(cur, prop, corr, keys)]
    distinct = set()
    for j, (c, p, k, i) in enumerate(cases):
        col.add(check_case(np.float32(c), np.float32(p), np.float32(k), us[i], int(code[j]), float(prob[j]), moved[j], float(newx[j]), float(newlp[j])))
        distinct.add((repr(c), repr(p), repr(k), i))
    return {
        "evaluations": col.evals,
        "distinct_nontrivial": len(distinct),
        "rule": (f"BOUNDED: real mh_step (jit+vmap) on the full product of {len(grid)} boundary values (-inf..inf, +-0, subnormal, NaN) for "
                 f"current/proposed log-prob and correction x {len(ks) if tier != 'quick' else 3} PRNG keys incl. PRNGKey({ZERO_KEY_SEED}) whose uniform draw is exactly 0.0, "
                 f"plus {extra} seeded random triples (seed={seed}); a case is distinct by its (cur, prop, corr, key) tuple. Kernel level: MHKernel with log-corrections "
                 "NaN / 0 / -0.5 / -inf (eager and jit, posterior and adaptation epoch), RW and IWLS kernels on a target that is NaN beyond a threshold: code, probability, moved flag "
                 "and returned state must be what mh_step prescribes; a rejected proposal through the Dict / Dataclass / NamedTuple interfaces with a dict-valued state entry (returned state = input state, caller's object untouched)."),
        "samples": [{"current": "-inf", "proposed": "0.0", "correction": "nan", "key": ZERO_KEY_SEED},
                    {"current": repr(cases[-1][0]), "proposed": repr(cases[-1][1]), "correction": repr(cases[-1][2]), "key_index": cases[-1][3]}],
        "exhaustive": False,
        "violations": col.violations,
    }


def _f(d):
    if isinstance(d, dict) and "fp32" in d:
        return float(d["fp32"])
    return float(d)


def replay(unit_id, obligation, model):
    if unit_id.startswith("C05.kernel_passthrough"):
        col = util.Collector()
        corr = model.get("user_log_correction")
        try:
            cs = (float("nan"), 0.0, -0.5, float("-inf")) if corr is None else (_f(corr), float("nan"))
        except (TypeError, ValueError):
            cs = (float("nan"),)
        kernel_cases(col, cs)
        return col.violations[0] if col.violations else None
    if unit_id != "C05.mh_step":
        return None
    try:
        c, p, k, u = _f(model["current_log_prob"]), _f(model["proposed_log_prob"]), _f(model["log_correction"]), _f(model["uniform"])
    except (KeyError, TypeError, ValueError):
        return None
    ks, us = keys_pool()
    # choose the key whose draw is closest to the model's u (exactly 0.0 is available)
    order = sorted(range(len(ks)), key=lambda i: abs(us[i] - u))
    for i in order:
        out = run_grid(jnp.array([c], jnp.float32), jnp.array([p], jnp.float32), jnp.array([k], jnp.float32), jnp.stack([ks[i]]))
        code, prob, moved, newx, newlp = [np.asarray(a)[0] for a in out]
        v = check_case(np.float32(c), np.float32(p), np.float32(k), us[i], int(code), float(prob), moved, float(newx), float(newlp))
        if v:
            v["input"]["prng_key"] = f"jax.random.PRNGKey({[ZERO_KEY_SEED, 0, 1, 2, 3, 4, 5, 6][i]})"
            return v
    return None

"""C17 bounded stand-in: real simulate() on hierarchical models with tight scales, so a child drawn at a stale parent is far off."""
from __future__ import annotations

import jax
import jax.numpy as jnp
import numpy as np
import tensorflow_probability.substrates.jax.distributions as tfd

from rtc import util
import liesel.model as lsl


def build(variant):
    mu = lsl.Var(np.float32(0.0), lsl.Dist(tfd.Normal, loc=1000.0, scale=0.001), name="mu")
    ls = lsl.Var(np.float32(3.0), lsl.Dist(tfd.Normal, loc=-5.0, scale=0.001), name="log_sigma")
    sigma = lsl.Var(lsl.Calc(jnp.exp, ls), name="sigma")
    if variant == "direct":
        loc = mu
    elif variant == "calc":
        loc = lsl.Var(lsl.Calc(lambda m: jnp.asarray(m, jnp.float32) + jnp.float32(0.0), mu), name="shifted")
    else:
        loc = lsl.Calc(lambda m: jnp.asarray(m, jnp.float32) * jnp.float32(1.0), mu)
    if variant == "keyword":
        d = lsl.Dist(tfd.Normal, mu, scale=sigma)
    else:
        d = lsl.Dist(tfd.Normal, loc=loc, scale=sigma)
    y = lsl.Var(jnp.zeros((4, 3), jnp.float32), d, name="y")
    z = lsl.Var(jnp.zeros(2, jnp.float32), lsl.Dist(tfd.Normal, loc=y.value_node if False else 7.0, scale=0.001), name="z")
    return lsl.GraphBuilder().add(y, z).build_model()


def case(col, variant, auto_update, skip, seed):
    inp = {"variant": variant, "auto_update": auto_update, "skip": list(skip), "seed": seed}
    m = build(variant)
    m.auto_update = auto_update
    before = {k: np.asarray(v.value).copy() for k, v in m.vars.items()}
    m.simulate(jax.random.PRNGKey(seed), skip=skip)
    m.update()
    v = {k: np.asarray(x.value) for k, x in m.vars.items()}
    bad = None
    for k in skip:
        if not np.array_equal(v[k], before[k]):
            bad = f"skipped variable {k} changed"
    if "mu" not in skip and abs(float(v["mu"]) - 1000) > 0.1:
        bad = bad or "mu not drawn from its distribution"
    mu_now, sig_now = float(v["mu"]), float(np.exp(v["log_sigma"]))
    if "y" not in skip:
        if v["y"].shape != (4, 3):
            bad = bad or f"shape of y changed to {v['y'].shape}"
        elif float(np.abs(v["y"] - mu_now).max()) > 8 * sig_now + 1e-3:
            bad = bad or f"y not drawn around the current mu={mu_now} with the current sigma={sig_now} (max deviation {float(np.abs(v['y'] - mu_now).max())})"
        elif "log_sigma" not in skip and float(np.std(v["y"] - mu_now)) < sig_now / 20:
            bad = bad or "y has (almost) no spread"
    if any(n.outdated for n in m.nodes.values()):
        bad = bad or "nodes outdated after update"
    m2 = build(variant)
    m2.auto_update = auto_update
    m2.simulate(jax.random.PRNGKey(seed), skip=skip)
    m2.update()
    if any(not np.array_equal(np.asarray(m2.vars[k].value), v[k]) for k in v):
        bad = bad or "result not determined by the seed"
    m3 = build(variant)
    m3.auto_update = not auto_update
    m3.simulate(jax.random.PRNGKey(seed), skip=skip)
    m3.update()
    if any(not np.allclose(np.asarray(m3.vars[k].value), v[k], rtol=1e-5, atol=1e-5) for k in v):
        bad = bad or "result depends on the auto-update setting"
    if skip and bad is None:  # `skip: Iterable[str]`: the same names as a one-shot iterable give the same result
        m4 = build(variant)
        m4.auto_update = auto_update
        m4.simulate(jax.random.PRNGKey(seed), skip=(n_ for n_ in skip))
        m4.update()
        diff = [k for k in v if not np.array_equal(np.asarray(m4.vars[k].value), v[k])]
        if diff:
            col.add({"sig": "native::simulate::skip_as_one_shot_iterable", "what": f"simulate(seed, skip=<generator over {list(skip)}>) differs from skip={list(skip)} in {diff}: "
                     + "; ".join(f"{k} = {np.asarray(m4.vars[k].value).round(4).tolist()} (skipped: stays {before[k].round(4).tolist()})" for k in diff if k in skip), "input": {**inp, "skip_given_as": "generator"}})
            return
    col.add({"sig": "native::simulate", "what": bad, "input": inp} if bad else None)


def transformed_case(col, entry, auto_update, seed):
    """tau ~ N(5, .001) (current 0); sigma ~ LogNormal(loc = Calc(tau), .001) re-parameterised with Var.transform; x ~ N(sigma, .001):
    the transformed variable's prior sits deeper in the graph than the child's distribution"""
    import tensorflow_probability.substrates.jax.bijectors as tfb
    tau = lsl.param(np.float32(0.0), lsl.Dist(tfd.Normal, loc=5.0, scale=0.001), name="tau")
    loc = lsl.Calc(lambda t: t * 1.0, tau, _name="loc")
    sigma = lsl.param(np.float32(1.0), lsl.Dist(tfd.LogNormal, loc=loc, scale=0.001), name="sigma")
    t = sigma.transform(tfb.Exp()) if entry == "instance" else sigma.transform()
    x = lsl.obs(np.zeros(3, np.float32), lsl.Dist(tfd.Normal, loc=sigma, scale=0.001), name="x")
    model = lsl.GraphBuilder().add(x).build_model()
    model.auto_update = auto_update
    model.simulate(jax.random.PRNGKey(seed))
    model.update()
    s_new, t_new, x_new, tau_new = float(model.vars["sigma"].value), float(model.vars[t.name].value), np.asarray(model.vars["x"].value), float(model.vars["tau"].value)
    ok = abs(tau_new - 5.0) < 0.05 and abs(np.log(s_new) - tau_new) < 0.05 and abs(np.exp(t_new) - s_new) < 1e-2 * s_new and np.all(np.abs(x_new - s_new) < 0.05)
    col.add(None if ok else {"sig": "native::simulate::transformed", "what": f"tau={tau_new:.3f}, sigma={s_new:.3f} (exp(tau)={np.exp(tau_new):.3f}), x={x_new.round(3).tolist()}: not a joint ancestral sample",
                             "input": {"transform": entry, "auto_update": auto_update, "seed": seed}})


def stale_entry_case(col, auto_on_at_entry, seed):
    """simulate() entered with outdated nodes: hyper assigned while auto-update was off (and auto-update possibly switched back on, which
    updates nothing): mu must be drawn around 2 * the NEW hyper"""
    hyper = lsl.Var(np.float32(0.0), name="hyper")
    loc = lsl.Calc(lambda h: 2.0 * h, hyper, _name="loc")
    mu = lsl.param(np.float32(0.0), lsl.Dist(tfd.Normal, loc=loc, scale=0.01), name="mu")
    x = lsl.obs(np.zeros(2, np.float32), lsl.Dist(tfd.Normal, loc=mu, scale=0.01), name="x")
    model = lsl.GraphBuilder().add(x).build_model()
    model.auto_update = False
    model.vars["hyper"].value = np.float32(100.0)
    if auto_on_at_entry:
        model.auto_update = True
    model.simulate(jax.random.PRNGKey(seed))
    model.update()
    m_, x_ = float(model.vars["mu"].value), np.asarray(model.vars["x"].value)
    ok = abs(m_ - 200.0) < 1.0 and np.all(np.abs(x_ - m_) < 1.0)
    col.add(None if ok else {"sig": "native::simulate::stale_entry", "what": f"hyper = 100 assigned with auto-update off, auto-update at entry = {auto_on_at_entry}: mu drawn as {m_} (expected about 200), x = {x_.tolist()}",
                             "input": {"auto_update_at_entry": auto_on_at_entry, "seed": seed}})


def copy_true_case(col, via, seed):
    """a model built with copy=True: simulate() draws the MODEL's variables and leaves the user's original variables alone"""
    mu = lsl.param(np.float32(0.0), lsl.Dist(tfd.Normal, loc=1000.0, scale=0.001), name="mu")
    x = lsl.obs(np.zeros(3, np.float32), lsl.Dist(tfd.Normal, loc=mu, scale=0.001), name="x")
    model = lsl.GraphBuilder().add(x).build_model(copy=True) if via == "builder" else lsl.Model([x], copy=True)
    model.simulate(jax.random.PRNGKey(seed))
    m_mu, m_x = float(model.vars["mu"].value), np.asarray(model.vars["x"].value)
    ok = abs(m_mu - 1000.0) < 0.05 and np.all(np.abs(m_x - m_mu) < 0.05) and float(mu.value) == 0.0 and np.all(np.asarray(x.value) == 0.0) and model.vars["mu"] is not mu
    col.add(None if ok else {"sig": "native::simulate::copy_true", "what": f"copy=True ({via}): model mu={m_mu}, x={m_x.tolist()}; the user's originals mu={float(mu.value)}, x={np.asarray(x.value).tolist()}",
                             "input": {"built_via": via, "seed": seed}})


def restored_state_case(col, auto_update, seed):
    """current values put in place by assigning a stored state (after the model had been updated at OTHER values): x ~ N(2 mu + 1, 0.01) with mu skipped is
    drawn around 2 mu + 1 at the RESTORED mu"""
    mu = lsl.param(np.float32(0.0), lsl.Dist(tfd.Normal, loc=0.0, scale=10.0), name="mu")
    eta = lsl.Var(lsl.Calc(lambda m_: 2.0 * m_ + 1.0, mu), name="eta")
    x = lsl.obs(np.zeros(3, np.float32), lsl.Dist(tfd.Normal, loc=eta, scale=0.01), name="x")
    model = lsl.GraphBuilder().add(x).build_model()
    model.vars["mu"].value = np.float32(-3.0)
    saved = model.state
    model.vars["mu"].value = np.float32(4.0)
    model.update()
    model.auto_update = auto_update
    model.state = saved
    model.simulate(jax.random.PRNGKey(seed), skip=["mu"])
    model.update()
    xs = np.asarray(model.vars["x"].value)
    ok = float(model.vars["mu"].value) == -3.0 and np.all(np.abs(xs - (-5.0)) < 0.2)
    col.add(None if ok else {"sig": "native::simulate::after_state_restore", "what": f"state with mu = -3 restored after an update at mu = 4 (auto_update={auto_update}), simulate(skip=['mu']): x = {xs.round(3).tolist()}, "
                             f"expected about 2*(-3)+1 = -5; mu = {float(model.vars['mu'].value)}", "input": {"auto_update": auto_update, "seed": seed}})


def shape_cases(col, seed):
    """drawn values keep the shape of the current values for per_obs on/off, leading sample dimensions, batch and event dimensions"""
    import tensorflow_probability.substrates.jax.distributions as tfd_
    key = jax.random.PRNGKey(seed)
    for per_obs in (True, False):
        mu = lsl.param(np.zeros((), np.float32), lsl.Dist(tfd_.Normal, loc=0.0, scale=1.0), name="mu")
        dy = lsl.Dist(tfd_.Normal, loc=mu, scale=1.0)
        dy.per_obs = per_obs
        y = lsl.obs(np.zeros((7,), np.float32), dy, name="y")
        db = lsl.Dist(tfd_.Normal, loc=np.zeros(3, np.float32), scale=1.0)  # batch shape (3,), two leading sample dimensions
        db.per_obs = per_obs
        b = lsl.Var(np.zeros((4, 2, 3), np.float32), db, name="b")
        dm = lsl.Dist(tfd_.MultivariateNormalDiag, loc=np.zeros(3, np.float32), scale_diag=np.ones(3, np.float32))  # event shape (3,)
        dm.per_obs = per_obs
        m = lsl.Var(np.zeros((5, 3), np.float32), dm, name="m")
        model = lsl.GraphBuilder().add(y, b, m).build_model()
        before = {k: np.shape(v.value) for k, v in model.vars.items()}
        model.simulate(key)
        model.update()
        after = {k: np.shape(v.value) for k, v in model.vars.items()}
        col.add(None if after == before else {"sig": "native::simulate::shapes", "what": f"per_obs={per_obs}: shapes of the current values {before} became {after}", "input": {"per_obs": per_obs, "seed": seed}})


def integer_start_value_case(col, auto_update, seed):
    """variables whose CURRENT value is integer-typed (Var(0, ...), int32 zeros): the current value only gives the shape of the draw - the new value is the
    draw from the distribution itself (same key, same parameters), and descendants are drawn at it"""
    import tensorflow_probability.substrates.jax.distributions as tfd_
    log_tau = lsl.param(0, lsl.Dist(tfd_.Normal, loc=0.0, scale=2.0), name="log_tau")
    tau = lsl.Var(lsl.Calc(jnp.exp, log_tau), name="tau")
    beta = lsl.param(jnp.zeros(4, dtype=jnp.int32), lsl.Dist(tfd_.Normal, loc=0.0, scale=tau), name="beta")
    model = lsl.GraphBuilder().add(beta).build_model()
    model.auto_update = auto_update
    key = jax.random.PRNGKey(seed)
    model.simulate(key)
    model.update()
    lt, be = np.asarray(model.vars["log_tau"].value), np.asarray(model.vars["beta"].value)
    # every child key of the seed is tried: which variable gets which child is not specified
    kids = list(jax.random.split(key, 2))
    want_lt = [float(tfd_.Normal(0.0, 2.0).sample((), k)) for k in kids]
    ok_lt = any(np.isclose(float(lt), w, rtol=1e-5) for w in want_lt)
    want_be = [np.asarray(tfd_.Normal(0.0, np.exp(np.float32(lt))).sample((4,), k)) for k in kids]
    ok_be = any(np.allclose(be, w, rtol=1e-5) for w in want_be)
    col.add(None if ok_lt and ok_be else {"sig": "native::simulate::integer_typed_current_value", "what": f"auto_update={auto_update}: log_tau = {lt!r} (draws of N(0, 2) with the seed's children: {np.round(want_lt, 4).tolist()}), "
                                          f"beta = {be.tolist()} (draws of N(0, exp(log_tau)): {[w.round(4).tolist() for w in want_be]})", "input": {"auto_update": auto_update, "seed": seed, "current_values": "log_tau = 0 (python int), beta = int32 zeros"}})


def pit_hierarchy_case(col, auto_update, seed):
    """a ~ N(0, 1); y ~ N(a, 1); u = PIT(y) (reads y's distribution node); z ~ N(u, 0.001): z is drawn at u = Phi(y - a) of the NEWLY drawn y and a"""
    import tensorflow_probability.substrates.jax.distributions as tfd_
    a = lsl.param(np.float32(0.0), lsl.Dist(tfd_.Normal, loc=0.0, scale=1.0), name="a")
    y = lsl.param(np.float32(3.0), lsl.Dist(tfd_.Normal, loc=a, scale=1.0), name="y")
    u = lsl.PIT(y, name="u")
    z = lsl.param(np.float32(0.0), lsl.Dist(tfd_.Normal, loc=u, scale=0.001), name="z")
    model = lsl.GraphBuilder().add(z).build_model()
    model.auto_update = auto_update
    model.simulate(jax.random.PRNGKey(seed))
    model.update()
    va, vy, vz = (float(model.vars[n].value) for n in ("a", "y", "z"))
    want = float(tfd_.Normal(va, 1.0).cdf(vy))
    ok = abs(vz - want) < 0.01
    col.add(None if ok else {"sig": "native::simulate::ancestor_through_distribution_reader", "what": f"auto_update={auto_update}: z = {vz:.4f} is not a draw from N(u, 0.001) with u = Phi(y - a) = {want:.4f} at the new a = {va:.4f}, y = {vy:.4f}",
                             "input": {"auto_update": auto_update, "seed": seed}})


def bare_dist_case(col, auto_update, seed):
    """distribution nodes that belong to NO variable (extra log-density terms evaluated at a variable's value node / at a data node) are not simulated: x is a
    draw from its own distribution at the new mu, a skipped x and the data node keep their values"""
    import tensorflow_probability.substrates.jax.distributions as tfd_
    bad = []
    for skip in ((), ("x",)):
        mu = lsl.param(np.float32(0.0), lsl.Dist(tfd_.Normal, loc=0.0, scale=1.0), name="mu")
        x = lsl.param(np.zeros(3, np.float32), lsl.Dist(tfd_.Normal, loc=mu, scale=0.001), name="x")
        pen = lsl.Dist(tfd_.Normal, loc=100.0, scale=0.001, _name="x_penalty")
        pen.at = x.var_value_node
        data = lsl.Data(np.full(2, 7.0, np.float32), _name="data")
        pen_d = lsl.Dist(tfd_.Normal, loc=-50.0, scale=0.001, _name="data_penalty")
        pen_d.at = data
        model = lsl.GraphBuilder().add(x, pen, pen_d).build_model()
        model.auto_update = auto_update
        model.simulate(jax.random.PRNGKey(seed), skip=list(skip))
        model.update()
        vx, vmu, vd = np.asarray(model.vars["x"].value), float(model.vars["mu"].value), np.asarray(model.nodes["data"].value)
        if not np.array_equal(vd, np.full(2, 7.0, np.float32)):
            bad.append(f"skip={list(skip)}: the data node a variable-less distribution is evaluated at was overwritten with {vd.tolist()}")
        if skip and not np.array_equal(vx, np.zeros(3, np.float32)):
            bad.append(f"skip=['x']: x was changed to {vx.tolist()}")
        if not skip and not np.all(np.abs(vx - vmu) < 0.01):
            bad.append(f"x = {vx.tolist()} is not a draw from N(mu = {vmu:.4f}, 0.001)")
    col.add(None if not bad else {"sig": "native::simulate::distribution_node_without_variable", "what": f"auto_update={auto_update}: " + "; ".join(bad), "input": {"auto_update": auto_update, "seed": seed}})


def independence_case(col, auto_update, seed):
    """every distributed variable is drawn with its OWN child of the seed: models entered with outdated nodes (value assigned while auto-update was off); models built with copy=True (the user's originals stay untouched); simulate(skip=parent) after a stored state was assigned back; shapes kept for per_obs on / off with leading sample, batch and event dimensions; two i.i.d. siblings differ, a child's noise is not its parent's"""
    a = lsl.param(np.zeros(4, np.float32), lsl.Dist(tfd.Normal, loc=0.0, scale=1.0), name="a")
    b = lsl.param(np.zeros(4, np.float32), lsl.Dist(tfd.Normal, loc=0.0, scale=1.0), name="b")
    x = lsl.obs(np.zeros(4, np.float32), lsl.Dist(tfd.Normal, loc=a, scale=1.0), name="x")
    model = lsl.GraphBuilder().add(x, b).build_model()
    model.auto_update = auto_update
    model.simulate(jax.random.PRNGKey(seed))
    va, vb, vx = (np.asarray(model.vars[n].value) for n in ("a", "b", "x"))
    ok = not np.allclose(va, vb) and not np.allclose(vx - va, va) and not np.allclose(vx - va, vb)
    col.add(None if ok else {"sig": "native::simulate::shared_key", "what": f"draws share their random key: a={va.round(3).tolist()}, b={vb.round(3).tolist()}, x-a={(vx - va).round(3).tolist()}",
                             "input": {"auto_update": auto_update, "seed": seed}})


def bounded(tier, seed):
    col = util.Collector()
    from rtc.c01 import CORE_RULE, core_native
    core_native(col, seed)
    for au in (True, False):
        try:
            stale_entry_case(col, au, seed + 7)
        except Exception as e:
            col.add({"sig": f"native::simulate::exception::{type(e).__name__}", "what": str(e)[:200], "input": {"scenario": "stale entry", "auto_update_at_entry": au}})
    for via in ("builder", "Model"):
        try:
            copy_true_case(col, via, seed + 5)
        except Exception as e:
            col.add({"sig": f"native::simulate::exception::{type(e).__name__}", "what": str(e)[:200], "input": {"scenario": "copy=True", "via": via}})
    for au in (True, False):
        try:
            restored_state_case(col, au, seed + 11)
        except Exception as e:
            col.add({"sig": f"native::simulate::exception::{type(e).__name__}", "what": str(e)[:200], "input": {"scenario": "restored state", "auto_update": au}})
    try:
        shape_cases(col, seed + 9)
    except Exception as e:
        col.add({"sig": f"native::simulate::exception::{type(e).__name__}", "what": str(e)[:200], "input": {"scenario": "shapes with per_obs on/off"}})
    for au in (True, False):
        for sd in (seed, seed + 1, seed + 2):
            try:
                pit_hierarchy_case(col, au, sd)
            except Exception as e:
                col.add({"sig": f"native::simulate::exception::{type(e).__name__}", "what": str(e)[:200], "input": {"scenario": "hierarchy through a PIT node", "auto_update": au}})
    for au in (True, False):
        try:
            bare_dist_case(col, au, seed + 17)
        except Exception as e:
            col.add({"sig": f"native::simulate::exception::{type(e).__name__}", "what": str(e)[:200], "input": {"scenario": "distribution nodes without a variable", "auto_update": au}})
    for au in (True, False):
        try:
            integer_start_value_case(col, au, seed + 13)
        except Exception as e:
            col.add({"sig": f"native::simulate::exception::{type(e).__name__}", "what": str(e)[:200], "input": {"scenario": "integer-typed current values", "auto_update": au}})
    for au in (True, False):
        try:
            independence_case(col, au, seed + 1)
        except Exception as e:
            col.add({"sig": f"native::simulate::exception::{type(e).__name__}", "what": str(e)[:200], "input": {"scenario": "independence", "auto_update": au}})
    for entry in ("instance", "default"):
        for au in (True, False):
            try:
                transformed_case(col, entry, au, seed + 3)
            except Exception as e:
                col.add({"sig": f"native::simulate::exception::{type(e).__name__}", "what": str(e)[:200], "input": {"transform": entry, "auto_update": au}})
    combos = [(v, a, s) for v in ("direct", "calc", "node_calc", "keyword") for a in (True, False) for s in ((), ("mu",), ("y",))]
    if tier == "quick":
        combos = [c_ for c_ in combos if c_[2] == () or c_[0] == "calc"]
    for i, (v, a, s) in enumerate(combos):
        try:
            case(col, v, a, s, seed + i)
        except Exception as e:
            col.add({"sig": f"native::simulate::exception::{type(e).__name__}", "what": str(e)[:200], "input": {"variant": v, "auto_update": a, "skip": list(s)}})
    return {"evaluations": col.evals, "distinct_nontrivial": len(combos),
            "rule": (CORE_RULE + "; " + "BOUNDED: models mu ~ N(1000, .001), log_sigma ~ N(-5, .001) (current 3.0), sigma = exp(log_sigma) cached, y (4x3) ~ N(loc, sigma) with loc = mu directly / through a weak "
                     "variable / through a bare Calc / positional mu with keyword scale; both auto-update settings; skip sets {}, {mu}, {y} (as a list and as a generator): values near the NEW parents, shapes kept, skipped "
                     f"untouched, nothing outdated after update, same seed same result, result independent of auto_update; models entered with outdated nodes (value assigned while auto-update was off); models built with copy=True (the user's originals stay untouched); simulate(skip=parent) after a stored state was assigned back; shapes kept for per_obs on / off with leading sample, batch and event dimensions; two i.i.d. siblings and a child must not share their noise; a hierarchy a -> y -> PIT(y) -> z (an ancestor reached through a node that reads a distribution node); distribution nodes that belong to no variable (evaluated at a variable's value node / a data node) are not simulated; integer-typed current values (python int, int32 zeros) replaced by the distribution's own draws; a hierarchy with a re-parameterised (Var.transform, instance and default bijector) variable in the middle. seeds {seed}.."),
            "samples": [{"variant": "calc", "auto_update": False, "skip": []}], "exhaustive": False, "violations": col.violations}

"""C10 bounded stand-in: run-twice equality, int seed == PRNGKey(seed), distinct keys per kernel call, chain independence,
first recorded sample = initial value after jitter (replicated and per-chain states, repeated build())."""
from __future__ import annotations

import jax
import jax.numpy as jnp
import numpy as np

from rtc import util
import liesel.goose as gs
from liesel.goose.epoch import EpochConfig, EpochType
from liesel.goose.kernel import DefaultTransitionInfo, DefaultTuningInfo, ModelMixin, TransitionOutcome, TuningOutcome, WarmupOutcome

SCHED = [(0, 1, 1), (1, 4, 1), (3, 2, 1), (4, 6, 2)]


def mk_epochs(s=SCHED):
    return [EpochConfig(EpochType(t), d, th, None) for t, d, th in s]


class KeyLogKernel(ModelMixin):
    """random-walk style kernel that logs the raw key of every transition in its state"""
    error_book = {0: "no errors"}
    needs_history = False
    identifier = ""

    def __init__(self, keys):
        self._model = None
        self.position_keys = tuple(keys)

    def init_state(self, prng_key, model_state):
        # (the key of the init_state call is the first entry of the log)
        return {"keys": jnp.zeros((32, 2), dtype=jnp.uint32).at[0].set(jnp.asarray(prng_key, dtype=jnp.uint32)), "n": jnp.int32(1)}

    def transition(self, prng_key, kernel_state, model_state, epoch):
        pos = self.position(model_state)
        new = {k: v + jax.random.normal(prng_key, jnp.shape(v)) for k, v in pos.items()}
        ks = {"keys": kernel_state["keys"].at[kernel_state["n"]].set(jnp.asarray(prng_key, dtype=jnp.uint32)), "n": kernel_state["n"] + 1}
        info = DefaultTransitionInfo(0, jnp.float32(1.0), jnp.int32(1))
        return TransitionOutcome(info, ks, self.model.update_state(new, model_state))

    @staticmethod
    def _log(prng_key, kernel_state):
        return {"keys": kernel_state["keys"].at[kernel_state["n"]].set(jnp.asarray(prng_key, dtype=jnp.uint32)), "n": kernel_state["n"] + 1}

    def tune(self, prng_key, kernel_state, model_state, epoch, history=None):
        return TuningOutcome(DefaultTuningInfo(0, epoch.time), self._log(prng_key, kernel_state))

    def start_epoch(self, prng_key, kernel_state, model_state, epoch):
        return self._log(prng_key, kernel_state)

    def end_epoch(self, prng_key, kernel_state, model_state, epoch):
        return self._log(prng_key, kernel_state)

    def end_warmup(self, prng_key, kernel_state, model_state, tuning_history):
        return WarmupOutcome(0, self._log(prng_key, kernel_state))


def builder(seed, chains=3, init=None, multiple=False, jitter=None, kernels="rw"):
    b = gs.EngineBuilder(seed=seed, num_chains=chains)
    b.set_epochs(mk_epochs())
    b.set_model(gs.DictInterface(lambda s: -0.5 * jnp.sum(s["x"] ** 2) - 0.5 * jnp.sum((s["y"] - 1.0) ** 2)))
    if init is None:
        init = {"x": jnp.array([0.5, -0.5]), "y": jnp.float32(2.0)}
    b.set_initial_values(init, multiple_chains=multiple)
    if kernels == "rw":
        b.add_kernel(gs.RWKernel(["x"], initial_step_size=0.8))
        b.add_kernel(gs.RWKernel(["y"], initial_step_size=0.8))
    elif kernels == "nuts":  # default step size: init_state searches a reasonable step size FROM THE MODEL STATE it is handed
        b.add_kernel(gs.NUTSKernel(["x"]))
        b.add_kernel(gs.HMCKernel(["y"]))
    else:
        b.add_kernel(KeyLogKernel(["x"]))
        b.add_kernel(KeyLogKernel(["y"]))
    if jitter is not None:
        b.set_jitter_fns(jitter)
    b.show_progress = False
    return b


class DerivedKeyInterface(gs.DictInterface):
    """a model interface whose extract_position computes a derived quantity that reduces over the value's leading axis (softmax weights): it is only
    meaningful on a SINGLE chain's state - which is all the ModelInterface protocol promises to handle"""

    def extract_position(self, position_keys, model_state):
        out = {}
        for k in position_keys:
            if k == "w":
                z = model_state["x"]
                out[k] = jnp.exp(z) / jnp.sum(jnp.exp(z))
            else:
                out[k] = model_state[k]
        return out


def derived_key_case(col, s):
    """every recorded sample of a tracked derived key - the FIRST one (initial values) included - is the model's extract_position applied to that chain's own state"""
    init = {"x": jnp.array([[0.5, -0.5], [3.0, 0.0], [-2.0, 1.0]]), "y": jnp.array([2.0, 1.0, 0.0])}
    b = gs.EngineBuilder(seed=s, num_chains=3)
    b.set_epochs(mk_epochs())
    b.set_model(DerivedKeyInterface(lambda st: -0.5 * jnp.sum(st["x"] ** 2) - 0.5 * jnp.sum((st["y"] - 1.0) ** 2)))
    b.set_initial_values(init, multiple_chains=True)
    b.add_kernel(gs.RWKernel(["x"], initial_step_size=0.8))
    b.add_kernel(gs.RWKernel(["y"], initial_step_size=0.8))
    b.positions_included = ["w"]
    b.show_progress = False
    e = b.build()
    e.sample_all_epochs()
    sm = {k: np.asarray(v) for k, v in e.get_results().get_samples().items()}
    x, w = sm["x"], sm["w"]
    want = np.exp(x) / np.sum(np.exp(x), axis=-1, keepdims=True)
    ok = w.shape == x.shape and np.allclose(w, want, rtol=1e-5, atol=1e-6) and np.allclose(x[:, 0], np.asarray(init["x"]))
    first_bad = None if ok else [int(i) for i in np.argwhere(~np.isclose(w, want, rtol=1e-5, atol=1e-6))[0]] if w.shape == x.shape else "shape"
    col.add(None if ok else {"sig": "native::initial::derived_key_per_chain", "what": f"tracked derived key w = softmax(x): recorded value differs from extract_position on the chain's own state at (chain, sample, entry) = {first_bad}; "
                             f"first recorded w of chain 0 = {w[0, 0].tolist() if w.ndim == 3 else w.shape}, expected {want[0, 0].tolist()}", "input": {"seed": s, "tracked": ["w"], "chains": 3}})


def run(b):
    e = b.build()
    e.sample_all_epochs()
    return e, {k: np.asarray(v) for k, v in e.get_results().get_samples().items()}


def bounded(tier, seed):
    col = util.Collector()
    s = 1000 + seed
    # 1. run twice, 2. int seed vs key
    _, r1 = run(builder(s))
    _, r2 = run(builder(s))
    _, r3 = run(builder(jax.random.PRNGKey(s)))
    col.add(None if all(np.array_equal(r1[k], r2[k]) for k in r1) else {"sig": "native::repro::rerun", "what": "two runs with identical seed/model/kernels/schedule differ", "input": {"seed": s}})
    col.add(None if all(np.array_equal(r1[k], r3[k]) for k in r1) else {"sig": "native::repro::int_seed", "what": "EngineBuilder(seed=int) differs from EngineBuilder(PRNGKey(int))", "input": {"seed": s}})
    # 3. distinct keys per kernel call / chain / iteration
    e, _ = run(builder(s, kernels="keylog"))
    allkeys = []
    for ks in e._kernel_states:
        arr, n = np.asarray(ks["keys"]), np.asarray(ks["n"])
        for c in range(arr.shape[0]):
            allkeys += [tuple(int(v) for v in row) for row in arr[c][: int(n[c])]]
    # per kernel and chain: every transition + start_epoch/end_epoch per sampled epoch + tune per adaptation epoch + end_warmup once
    per = sum(d for _, d, _ in SCHED[1:]) + 2 * len(SCHED[1:]) + sum(1 for t, _, _ in SCHED[1:] if t in (1, 2)) + 1 + 1  # (+ init_state)
    want_n = 2 * 3 * per
    if len(allkeys) != want_n or len(set(allkeys)) != len(allkeys):
        col.add({"sig": "native::repro::distinct_keys", "what": f"{len(allkeys)} kernel calls (init_state, transition, start_epoch, end_epoch, tune, end_warmup) received {len(set(allkeys))} distinct keys (expected {want_n} distinct)", "input": {"seed": s}})
    else:
        col.add(None)
    # 4. chain independence: change the initial values of chains 1,2 only
    base = {"x": jnp.tile(jnp.array([0.5, -0.5]), (3, 1)), "y": jnp.full((3,), 2.0)}
    other = {"x": base["x"].at[1:].add(5.0), "y": base["y"].at[1:].add(-3.0)}
    _, ra = run(builder(s, init=base, multiple=True))
    _, rb = run(builder(s, init=other, multiple=True))
    same0 = all(np.array_equal(ra[k][0], rb[k][0]) for k in ra)
    differ = any(not np.array_equal(ra[k][1], rb[k][1]) for k in ra)
    col.add(None if same0 and differ else {"sig": "native::repro::chain_independence", "what": "chain 0 changed when only the initial values of chains 1 and 2 were changed", "input": {"seed": s}})
    # 4b. ... in both directions and with kernels whose initial state depends on the model state (NUTS / HMC step-size search): change chain 0 only
    far0 = {"x": base["x"].at[0].add(40.0), "y": base["y"].at[0].add(-25.0)}
    _, rc = run(builder(s, init=base, multiple=True, kernels="nuts"))
    _, rd = run(builder(s, init=far0, multiple=True, kernels="nuts"))
    same12 = all(np.array_equal(rc[k][1:], rd[k][1:]) for k in rc)
    col.add(None if same12 else {"sig": "native::repro::chain_independence_kernel_init", "what": "chains 1 and 2 (NUTS / HMC kernels with default step size) changed when only the initial value of chain 0 was changed",
                                 "input": {"seed": s, "kernels": ["NUTSKernel(['x'])", "HMCKernel(['y'])"]}})
    # 4c. a tracked key that the model DERIVES inside extract_position (per chain)
    try:
        derived_key_case(col, s)
    except Exception as e_:
        col.add({"sig": f"native::initial::exception::{type(e_).__name__}", "what": str(e_)[:200], "input": {"scenario": "derived tracked key"}})
    # 5. first recorded sample = initial value after jitter; replicated and per-chain; repeated build
    jit = {"x": lambda key, v: v + 0.25, "y": lambda key, v: v + jax.random.uniform(key, v.shape)}
    for multiple, init in ((False, None), (True, base)):
        b = builder(s, init=init, multiple=multiple, jitter=jit)
        firsts = []
        for rep in range(2):
            e = b.build()
            e.sample_next_epoch()
            first = {k: np.asarray(v)[:, 0] for k, v in e.get_results().get_samples().items()}
            firsts.append(first)
            x0 = np.tile(np.array([0.5, -0.5]), (3, 1)) + 0.25
            oky = np.all((first["y"] >= 2.0) & (first["y"] < 3.0)) and len(set(first["y"].tolist())) == 3
            if not (np.allclose(first["x"], x0) and oky):
                col.add({"sig": "native::initial::first_sample", "what": f"build #{rep + 1}: first recorded sample x={first['x'].tolist()} is not the supplied initial value after the configured jitter "
                         f"(expected x={x0.tolist()}, y in [2,3) distinct per chain, got y={first['y'].tolist()})", "input": {"multiple_chains": multiple, "build": rep + 1}})
                break
        else:
            col.add(None if all(np.array_equal(firsts[0][k], firsts[1][k]) for k in firsts[0]) else
                    {"sig": "native::initial::rebuild", "what": "a second build() of the same builder starts from different values", "input": {"multiple_chains": multiple}})
    # 5a. chain counts 1, 2 and 5: the configured jitter is applied whatever the number of chains
    for nch in (1, 2, 5):
        b = builder(s, chains=nch, jitter=jit)
        e = b.build()
        e.sample_next_epoch()
        first = {k: np.asarray(v)[:, 0] for k, v in e.get_results().get_samples().items()}
        ok = np.allclose(first["x"], np.tile(np.array([0.75, -0.25]), (nch, 1))) and np.all((first["y"] >= 2.0) & (first["y"] < 3.0)) and len(set(first["y"].tolist())) == nch
        col.add(None if ok else {"sig": "native::initial::first_sample_chain_count", "what": f"{nch} chain(s): first recorded sample x={first['x'].tolist()}, y={first['y'].tolist()} is not the supplied initial value "
                                 "(0.5, -0.5), 2.0 after the configured jitter (x + 0.25, y + U[0,1) per chain)", "input": {"num_chains": nch}})
    # 5a'. a jitter function for a key that NO kernel samples (a fixed scale dispersed over the chains, tracked through positions_included)
    try:
        b = gs.EngineBuilder(seed=s, num_chains=3)
        b.set_epochs(mk_epochs())
        b.set_model(gs.DictInterface(lambda st: -0.5 * jnp.sum(st["x"] ** 2) / st["s"] ** 2))
        b.set_initial_values({"x": jnp.array([0.5, -0.5]), "s": jnp.float32(1.0)})
        b.add_kernel(gs.RWKernel(["x"], initial_step_size=0.8))
        b.positions_included = ["s"]
        b.set_jitter_fns({"x": lambda key, v: v + 0.25, "s": lambda key, v: v + 2.0 + jax.random.uniform(key, v.shape)})
        b.show_progress = False
        e = b.build()
        e.sample_next_epoch()
        first = {k: np.asarray(v)[:, 0] for k, v in e.get_results().get_samples().items()}
        ok = np.allclose(first["x"], np.tile(np.array([0.75, -0.25]), (3, 1))) and np.all((first["s"] >= 3.0) & (first["s"] < 4.0)) and len(set(first["s"].tolist())) == 3
        col.add(None if ok else {"sig": "native::initial::jitter_for_a_key_without_kernel", "what": f"jitter functions for x (sampled) and s (no kernel, tracked): first recorded sample x={first['x'].tolist()}, s={first['s'].tolist()}; "
                                 "the supplied values after the configured jitter are x=(0.75, -0.25), s in [3, 4) distinct per chain", "input": {"jitter_keys": ["x", "s"], "kernel_keys": ["x"]}})
    except Exception as e_:
        col.add({"sig": f"native::initial::exception::{type(e_).__name__}", "what": str(e_)[:200], "input": {"scenario": "jitter for a key without kernel"}})
    # 5b. jitter switched off again (None / empty mapping) or replaced on the same builder: "the configured jitter" is the last configuration
    for off in (None, {}):
        b = builder(s, jitter=jit)
        b.set_jitter_fns(off)
        e = b.build()
        e.sample_next_epoch()
        first = {k: np.asarray(v)[:, 0] for k, v in e.get_results().get_samples().items()}
        ok = np.allclose(first["x"], np.tile(np.array([0.5, -0.5]), (3, 1))) and np.allclose(first["y"], 2.0)
        col.add(None if ok else {"sig": "native::initial::jitter_switched_off", "what": f"set_jitter_fns(fns) then set_jitter_fns({off!r}): first recorded sample x={first['x'].tolist()}, y={first['y'].tolist()} "
                                 "is not the supplied initial value (0.5, -0.5), 2.0", "input": {"second_call": repr(off)}})
    b = builder(s, jitter=jit)
    b.set_jitter_fns({"x": lambda key, v: v - 1.0})
    e = b.build()
    e.sample_next_epoch()
    first = {k: np.asarray(v)[:, 0] for k, v in e.get_results().get_samples().items()}
    ok = np.allclose(first["x"], np.tile(np.array([-0.5, -1.5]), (3, 1))) and np.allclose(first["y"], 2.0)
    col.add(None if ok else {"sig": "native::initial::jitter_replaced", "what": "jitter functions replaced by x -> x - 1: first recorded sample x=" + str(first["x"].tolist()) + ", y=" + str(first["y"].tolist()), "input": {}})
    # 6. re-execution in fresh interpreter processes (string hashing is randomised per process)
    import os, subprocess, sys
    digests = []
    for hs in ("1", "2", "3"):
        env = dict(os.environ, PYTHONHASHSEED=hs, JAX_PLATFORMS="cpu")
        p_ = subprocess.run([sys.executable, "-m", "rtc.c10_hashseed_probe", str(s)], capture_output=True, text=True, env=env, cwd=os.path.dirname(os.path.dirname(os.path.abspath(__file__))), timeout=300)
        d = [l.split()[1] for l in p_.stdout.splitlines() if l.startswith("DIGEST")]
        digests.append(d[0] if d else f"failed: {p_.stderr[-200:]}")
    if any(x.startswith("failed") for x in digests):
        col.add({"sig": "native::repro::process_probe_failed", "what": str(digests), "input": {"seed": s}})
    else:
        col.add(None if len(set(digests)) == 1 else {"sig": "native::repro::across_processes", "what": "identical seed/model/kernels/schedule/jitter functions give different first samples in different "
                                                     f"interpreter processes (PYTHONHASHSEED 1,2,3): {len(set(digests))} distinct results", "input": {"seed": s, "jitter_keys": ["gamma", "alpha", "delta", "beta"]}})
    return {
        "evaluations": col.evals, "distinct_nontrivial": col.evals,
        "rule": ("BOUNDED: real EngineBuilder/Engine, 3 chains, two RW kernels on a Gaussian dict model, schedule INIT/FAST(4)/BURNIN(2)/POST(6, thinning 2): rerun equality, int seed vs "
                 "PRNGKey, uniqueness of the keys received by every kernel call - init_state, transition, start_epoch, end_epoch, tune, end_warmup - (key-logging kernel), chain 0 unchanged when other chains' initial values change and chains 1,2 unchanged when chain 0's does (NUTS/HMC with step-size search at initialisation), a tracked key derived inside extract_position (softmax over the value) recorded per chain from the first sample on, first "
                 f"recorded sample = initial value + jitter for replicated and per-chain states over two consecutive build() calls, and for 1, 2 and 5 chains; a jitter function for a tracked key that no kernel samples; jitter functions switched off (None or an empty mapping) or replaced on the same builder. base seed {s}. Determinism of XLA is an assumption."),
        "samples": [{"seed": s, "schedule": SCHED}],
        "exhaustive": False, "violations": col.violations,
    }

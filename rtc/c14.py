"""C14 bounded stand-in: numeric change-of-variables identity on distribution x bijector pairs, all entry points, incl.
parameter-dependent default bijectors and re-assigned parameters."""
from __future__ import annotations

import warnings

import jax.numpy as jnp
import numpy as np
import tensorflow_probability.substrates.jax.bijectors as tfb
import tensorflow_probability.substrates.jax.distributions as tfd

from rtc import util
import liesel.model as lsl

DISTS = {
    "Exponential": (tfd.Exponential, {"rate": 1.7}, 0.8),
    "HalfCauchy": (tfd.HalfCauchy, {"loc": 0.0, "scale": 2.0}, 1.3),
    "InverseGamma": (tfd.InverseGamma, {"concentration": 2.5, "scale": 1.2}, 0.6),
    "Gamma": (tfd.Gamma, {"concentration": 2.0, "rate": 1.5}, 1.1),
    "Beta": (tfd.Beta, {"concentration1": 2.0, "concentration0": 3.0}, 0.35),
    "Uniform": (tfd.Uniform, {"low": 0.0, "high": 2.0}, 1.0),
}


def case(col, dname, how, t_points):
    D, params, v0 = DISTS[dname]
    inp = {"distribution": dname, "entry": how}
    pvars = {k: lsl.Var(np.float32(v), name=f"par_{k}") for k, v in params.items()}
    x = lsl.Var(np.float32(v0), lsl.Dist(D, **pvars), name="x")
    x.parameter = True
    sc = lsl.Var(np.float32(1.5), name="sc")
    with warnings.catch_warnings():
        warnings.simplefilter("ignore")
        if how == "default":
            x.transform()
            bij = lambda P: D(**P).experimental_default_event_space_bijector()  # noqa: E731
        elif how == "auto":
            x.auto_transform = True
            bij = lambda P: D(**P).experimental_default_event_space_bijector()  # noqa: E731
        elif how == "instance_exp":
            if dname in ("Beta", "Uniform"):
                return
            x.transform(tfb.Exp())
            bij = lambda P: tfb.Exp()  # noqa: E731
        elif how == "class_scale_var":
            if dname in ("Beta", "Uniform"):
                return
            x.transform(tfb.Chain, [tfb.Softplus()]) if False else x.transform(tfb.Scale, sc)
            bij = lambda P: tfb.Scale(P["__sc"])  # noqa: E731
        else:
            gb0 = lsl.GraphBuilder()
            gb0.transform(x) if how == "deprecated_default" else gb0.transform(x, tfb.Softplus()) if dname not in ("Beta", "Uniform") else gb0.transform(x)
            bij = (lambda P: D(**P).experimental_default_event_space_bijector()) if (how == "deprecated_default" or dname in ("Beta", "Uniform")) else (lambda P: tfb.Softplus())
        model = lsl.GraphBuilder().add(x, sc).build_model()
    tv = model.vars["x_transformed"]
    xv = model.vars["x"]
    if not np.isclose(float(xv.value), v0, rtol=1e-4) or xv.has_dist or not tv.parameter or xv.parameter or not tv.strong:
        col.add({"sig": "native::transform::structure", "what": f"after transform: x={float(xv.value)} (was {v0}), has_dist={xv.has_dist}, flags new/old={tv.parameter}/{xv.parameter}", "input": inp})
        return
    for step in range(2):
        P = {k: float(model.vars[f"par_{k}"].value) for k in params}
        Pb = dict(P)
        b = bij({**{k: np.float32(v) for k, v in P.items()}, "__sc": np.float32(float(model.vars["sc"].value))}) if how == "class_scale_var" else bij({k: np.float32(v) for k, v in Pb.items()})
        for t in t_points:
            tv.value = np.float32(t)
            want_x = float(b.forward(np.float32(t)))
            want_lp = float(D(**{k: np.float32(v) for k, v in P.items()}).log_prob(b.forward(np.float32(t))) + b.forward_log_det_jacobian(np.float32(t), event_ndims=0))
            got_x, got_lp = float(model.vars["x"].value), float(np.sum(tv.log_prob))
            if not (np.isclose(got_x, want_x, rtol=2e-4, atol=1e-5) and np.isclose(got_lp, want_lp, rtol=2e-4, atol=2e-4, equal_nan=True)):
                col.add({"sig": "native::transform::change_of_variables", "what": f"t={t} (step {step}): x={got_x} vs b(t)={want_x}; log-density {got_lp} vs p(b(t)) + log|db/dt| = {want_lp}", "input": inp})
                return
        # move a parameter of the distribution / the bijector argument and re-check
        k0 = list(params)[-1]
        model.vars[f"par_{k0}"].value = np.float32(params[k0] * 2.0)
        model.vars["sc"].value = np.float32(0.7)
    col.add(None)


def chained_case(col, first):
    """x ~ Exponential re-parameterised, then the NEW variable re-parameterised again with Shift(0.3): x must stay b1(b2(innermost))"""
    rate = lsl.Var(np.float32(1.7), name="rate")
    x = lsl.param(np.float32(0.8), lsl.Dist(tfd.Exponential, rate=rate), name="x")
    y = lsl.obs(np.float32(0.1), lsl.Dist(tfd.Normal, loc=x, scale=1.0), name="y")
    t1 = x.transform(tfb.Exp()) if first == "instance" else x.transform()
    t2 = t1.transform(tfb.Shift(np.float32(0.3)))
    model = lsl.GraphBuilder().add(y).build_model()
    bad = None
    if not all(n in model.vars for n in ("x", t1.name, t2.name)):
        bad = f"variables of the transformation chain missing from the model: {sorted(model.vars)}"
    else:
        b1 = tfb.Exp() if first == "instance" else tfd.Exponential(1.7).experimental_default_event_space_bijector()
        for tv in (-1.0, 0.2, 1.4):
            model.vars[t2.name].value = np.float32(tv)
            want = float(b1.forward(np.float32(tv) + np.float32(0.3)))
            got = float(model.vars["x"].value)
            if not np.isclose(got, want, rtol=1e-5):
                bad = f"innermost variable = {tv}: x = {got}, but b1(b2(innermost)) = {want}"
                break
    col.add(None if bad is None else {"sig": "native::transform::chained", "what": bad, "input": {"first_transformation": first, "second": "Shift(0.3) instance"}})


def liesel_bijector_case(col, how):
    """liesel's own AlgebraicSigmoid as the bijector: x ~ Uniform(-1, 1); new log-density at t = log p(b(t)) + log b'(t) with b'(t) by autodiff"""
    import jax
    from liesel.bijectors.algebraic_sigmoid import AlgebraicSigmoid
    x = lsl.param(np.float32(0.3), lsl.Dist(tfd.Uniform, low=-1.0, high=1.0), name="rho")
    if how == "instance":
        t = x.transform(AlgebraicSigmoid())
    elif how == "class":
        t = x.transform(AlgebraicSigmoid, validate_args=False)  # a class needs at least one argument
    else:
        gb0 = lsl.GraphBuilder()
        with warnings.catch_warnings():
            warnings.simplefilter("ignore")
            t = gb0.transform(x, AlgebraicSigmoid)
    model = lsl.GraphBuilder().add(x).build_model()
    b = AlgebraicSigmoid()
    bad = None
    for tv in (-2.0, -0.4, 0.05, 0.9, 3.0):
        model.vars[t.name].value = np.float32(tv)
        want = float(np.log(0.5) + np.log(float(jax.grad(lambda z: b.forward(z))(jnp.float32(tv)))))
        got = float(np.sum(np.asarray(model.vars[t.name].log_prob)))
        xv = float(model.vars["rho"].value)
        if not (np.isclose(got, want, rtol=1e-3, atol=1e-4) and np.isclose(xv, float(b.forward(jnp.float32(tv))), rtol=1e-5)):
            bad = f"t = {tv}: new log-density {got}, change of variables gives {want}; rho = {xv}"
            break
    col.add(None if bad is None else {"sig": "native::transform::liesel_bijector", "what": bad, "input": {"bijector": "AlgebraicSigmoid", "entry": how}})


def copied_graph_case(col, how, via):
    """x ~ Uniform(0, high) with the parameter-dependent default bijector Sigmoid(0, high), transformed by `how`; the model is then built from a
    deep COPY of the graph (build_model(copy=True) / LieselInterface / copy_nodes_and_vars + rebuild) and `high` is re-assigned in the copy only:
    the original variable of the copy must be the bijector image at the COPY's parameter value (analytic reference)"""
    import liesel.goose as gs
    high = lsl.Var(np.float32(2.0), name="high")
    x = lsl.param(np.float32(0.5), lsl.Dist(tfd.Uniform, low=0.0, high=high), name="x")
    if how == "auto":
        x.auto_transform = True
    elif how == "default":
        x.transform()
    elif how == "class":
        x.transform(tfb.Sigmoid, low=0.0, high=high)
    else:
        with warnings.catch_warnings():
            warnings.simplefilter("ignore")
            gb0 = lsl.GraphBuilder()
            gb0.transform(x)
    y = lsl.obs(np.float32(0.7), lsl.Dist(tfd.Normal, loc=x, scale=1.0), name="y")
    gb = (gb0 if how == "deprecated" else lsl.GraphBuilder()).add(y)
    tv, hv = 0.4, 5.0
    x_true = hv / (1.0 + np.exp(-tv))
    if via == "build_copy":
        m = gb.build_model(copy=True)
        m.vars["high"].value = np.float32(hv)
        m.vars["x_transformed"].value = np.float32(tv)
        got = float(m.vars["x"].value)
    elif via == "interface":
        m0 = gb.build_model()
        st = gs.LieselInterface(m0).update_state({"high": jnp.float32(hv), "x_transformed": jnp.float32(tv)}, m0.state)
        got = float(st["x_value"].value)
    else:
        m0 = gb.build_model()
        nodes, vars_ = m0.copy_nodes_and_vars()
        m = lsl.GraphBuilder().add(vars_["y"]).build_model()
        m.vars["high"].value = np.float32(hv)
        m.vars["x_transformed"].value = np.float32(tv)
        got = float(m.vars["x"].value)
    col.add(None if np.isclose(got, x_true, rtol=1e-5) else
            {"sig": "native::transform::copied_graph", "what": f"{how} via {via}: in the copied model x = {got} but Sigmoid(0, high={hv}).forward({tv}) = {x_true} "
             "(the user's own graph has high = 2.0)", "input": {"entry": how, "copy": via, "high_in_copy": hv, "x_transformed": tv}})


def deep_auto_transform_case(col, via_node):
    """a variable flagged auto_transform that sits TWO levels below the variable added to the builder (or is reached only through an added node):
    the built model holds its unconstrained counterpart, the original is its bijector image, the log-density is the change of variables"""
    tau = lsl.param(np.float32(1.3), lsl.Dist(tfd.HalfCauchy, loc=0.0, scale=5.0), name="tau")
    tau.auto_transform = True
    sigma = lsl.param(np.float32(0.8), lsl.Dist(tfd.HalfNormal, scale=tau), name="sigma")
    y = lsl.obs(np.array([0.2, -0.4], np.float32), lsl.Dist(tfd.Normal, loc=0.0, scale=sigma), name="y")
    root = lsl.Calc(lambda v: v * 1.0, y, _name="root") if via_node else y
    model = lsl.GraphBuilder().add(root).build_model()
    bad = None
    if "tau_transformed" not in model.vars:
        bad = f"tau was flagged auto_transform but the model has no tau_transformed: vars = {sorted(model.vars)}"
    else:
        b = tfd.HalfCauchy(0.0, 5.0).experimental_default_event_space_bijector()
        for tv in (-0.7, 0.3, 1.9):
            model.vars["tau_transformed"].value = np.float32(tv)
            xv = float(model.vars["tau"].value)
            want_x = float(b.forward(np.float32(tv)))
            want_lp = float(tfd.HalfCauchy(0.0, 5.0).log_prob(want_x) + b.forward_log_det_jacobian(np.float32(tv)))
            got_lp = float(np.sum(np.asarray(model.vars["tau_transformed"].log_prob)))
            if not (np.isclose(xv, want_x, rtol=1e-5) and np.isclose(got_lp, want_lp, rtol=1e-4, atol=1e-4) and model.vars["tau"].weak and not model.vars["tau"].parameter and model.vars["tau_transformed"].parameter):
                bad = f"t = {tv}: tau = {xv} (bijector image {want_x}); new log-density {got_lp} (change of variables {want_lp}); flags weak={model.vars['tau'].weak}"
                break
    col.add(None if bad is None else {"sig": "native::transform::auto_transform_deep_in_the_graph", "what": bad, "input": {"flagged": "tau (two levels below the added variable)", "added": "a node on y" if via_node else "y"}})


def large_initial_value_case(col):
    """auto-transform of Gamma / Exponential / InverseGamma variables started at LARGE values (50, [20, 35, 60]): in float32 softplus^-1(x) == x there,
    which must not be mistaken for 'nothing to transform'"""
    bad = None
    for nm, D, kw, v0 in (("Gamma", tfd.Gamma, {"concentration": 2.0, "rate": 0.05}, np.float32(50.0)), ("Exponential", tfd.Exponential, {"rate": 0.02}, np.array([20.0, 35.0, 60.0], np.float32)),
                          ("InverseGamma", tfd.InverseGamma, {"concentration": 2.0, "scale": 40.0}, np.float32(30.0))):
        x = lsl.param(v0, lsl.Dist(D, **kw), name="x")
        x.auto_transform = True
        y = lsl.obs(np.float32(0.3), lsl.Dist(tfd.Normal, loc=0.0, scale=lsl.Calc(lambda v: jnp.sum(v), x)), name="y")
        model = lsl.GraphBuilder().add(y).build_model()
        if "x_transformed" not in model.vars:
            bad = f"{nm} started at {np.asarray(v0).tolist()}: flagged auto_transform but the model has no x_transformed (vars {sorted(model.vars)})"
            break
        b = D(**kw).experimental_default_event_space_bijector()
        model.vars["x_transformed"].value = np.asarray(v0) * 0.0 + np.float32(1.7)
        got, want = np.asarray(model.vars["x"].value), np.asarray(b.forward(np.asarray(v0) * 0.0 + np.float32(1.7)))
        if not (np.allclose(got, want, rtol=1e-5) and model.vars["x"].weak and model.vars["x_transformed"].parameter and not model.vars["x"].parameter):
            bad = f"{nm} started at {np.asarray(v0).tolist()}: x = {got.tolist()} is not the bijector image {want.tolist()} of x_transformed = 1.7"
            break
    col.add(None if bad is None else {"sig": "native::transform::large_initial_value", "what": bad, "input": {"initial_values": [50.0, [20.0, 35.0, 60.0], 30.0]}})


def boundary_value_case(col, how):
    """an initial value with one element ON the boundary of the support (mapped to -inf by the default bijector): the original variable
    keeps its value in every element, whichever entry point performs the transformation"""
    x0 = np.array([0.0, 1.0, 2.0], np.float32)
    x = lsl.param(x0.copy(), lsl.Dist(tfd.Exponential, rate=1.0), name="x")
    if how == "auto":
        x.auto_transform = True
    else:
        x.transform()
    y = lsl.obs(np.float32(0.1), lsl.Dist(tfd.Normal, loc=lsl.Calc(jnp.sum, x), scale=1.0), name="y")
    model = lsl.GraphBuilder().add(y).build_model()
    got = np.asarray(model.vars["x"].value)
    t = np.asarray(model.vars["x_transformed"].value)
    b = tfd.Exponential(1.0).experimental_default_event_space_bijector()
    ok = np.allclose(got, x0, atol=1e-6) and np.allclose(np.asarray(b.forward(t)), x0, atol=1e-6)
    col.add(None if ok else {"sig": "native::transform::boundary_value", "what": f"{how}: original value {x0.tolist()} became {got.tolist()} (unconstrained {t.tolist()})",
                             "input": {"entry": how, "initial_value": x0.tolist(), "distribution": "Exponential(1)"}})


def observed_variable_case(col, how):
    """transforming a variable flagged OBSERVED (the flag stays on the original variable): the original keeps no distribution of its own and the model counts the
    density once - log_prob = original log-density at b(t) + log|det db/dt|"""
    import tensorflow_probability.substrates.jax.bijectors as tfb_
    import tensorflow_probability.substrates.jax.distributions as tfd_
    y = lsl.obs(np.float32(1.7), lsl.Dist(tfd_.Gamma, concentration=2.0, rate=1.5), name="y")
    t = y.transform(tfb_.Exp()) if how == "instance" else y.transform()
    model = lsl.GraphBuilder().add(y).build_model()
    tv = float(model.vars["y_transformed"].value)
    b = tfb_.Exp() if how == "instance" else tfd_.Gamma(2.0, 1.5).experimental_default_event_space_bijector()
    want = float(tfd_.Gamma(2.0, 1.5).log_prob(b.forward(np.float32(tv))) + b.forward_log_det_jacobian(np.float32(tv), event_ndims=0))
    bad = []
    if y.dist_node is not None or y.has_dist:
        bad.append("the original (observed) variable still has a distribution of its own")
    if not np.isclose(float(model.log_prob), want, rtol=1e-4, atol=1e-4):
        bad.append(f"model.log_prob = {float(model.log_prob):.5f}, the transformed density alone is {want:.5f}")
    if y.observed is not True:
        bad.append("the observed flag of the original variable changed")
    col.add(None if not bad else {"sig": "native::transform::observed_variable", "what": f"{how}: " + "; ".join(bad), "input": {"entry": how, "variable": "y = lsl.obs(1.7, Gamma(2, 1.5))"}})


def bounded(tier, seed):
    col = util.Collector()
    from rtc.c01 import CORE_RULE, core_native
    core_native(col, seed)
    for how in ("instance", "class", "deprecated"):
        try:
            liesel_bijector_case(col, how)
        except Exception as e:
            col.add({"sig": f"native::transform::exception::{type(e).__name__}", "what": f"AlgebraicSigmoid/{how}: {str(e)[:200]}", "input": {"entry": how}})
    for how in ("instance", "default"):
        try:
            observed_variable_case(col, how)
        except Exception as e:
            col.add({"sig": f"native::transform::exception::{type(e).__name__}", "what": f"observed variable/{how}: {str(e)[:200]}", "input": {"entry": how}})
    for how in ("auto", "manual"):
        try:
            boundary_value_case(col, how)
        except Exception as e:
            col.add({"sig": f"native::transform::exception::{type(e).__name__}", "what": f"boundary/{how}: {str(e)[:200]}", "input": {"entry": how}})
    for how in ("auto", "default", "class", "deprecated"):
        for via in ("build_copy", "interface", "copy_nodes_and_vars"):
            try:
                copied_graph_case(col, how, via)
            except Exception as e:
                col.add({"sig": f"native::transform::exception::{type(e).__name__}", "what": f"copied graph/{how}/{via}: {str(e)[:200]}", "input": {"entry": how, "copy": via}})
    try:
        large_initial_value_case(col)
    except Exception as e:
        col.add({"sig": f"native::transform::exception::{type(e).__name__}", "what": f"large initial value: {str(e)[:200]}", "input": {}})
    for via_node in (False, True):
        try:
            deep_auto_transform_case(col, via_node)
        except Exception as e:
            col.add({"sig": f"native::transform::exception::{type(e).__name__}", "what": f"deep auto-transform: {str(e)[:200]}", "input": {"via_node": via_node}})
    for first in ("instance", "default"):
        try:
            chained_case(col, first)
        except Exception as e:
            col.add({"sig": f"native::transform::exception::{type(e).__name__}", "what": f"chained/{first}: {str(e)[:200]}", "input": {"first_transformation": first}})
    ts = (-1.2, 0.0, 0.9) if tier == "quick" else (-3.0, -1.2, -0.1, 0.0, 0.4, 0.9, 2.5)
    hows = ("default", "auto", "instance_exp", "class_scale_var", "deprecated_default", "deprecated_softplus")
    n = 0
    for dname in DISTS:
        for how in hows:
            if tier == "quick" and dname in ("Gamma", "InverseGamma") and how not in ("default", "class_scale_var"):
                continue
            try:
                case(col, dname, how, ts)
            except Exception as e:
                col.add({"sig": f"native::transform::exception::{type(e).__name__}", "what": f"{dname}/{how}: {type(e).__name__}: {str(e)[:200]}", "input": {"distribution": dname, "entry": how}})
            n += 1
    return {"evaluations": col.evals, "distinct_nontrivial": n,
            "rule": (CORE_RULE + "; " + f"BOUNDED: {len(DISTS)} distributions (Exponential, HalfCauchy, InverseGamma, Gamma, Beta, Uniform with variable bounds) x entry points (default, auto-transform, "
                     f"Exp instance, Scale class with a model variable as argument, deprecated builder method) at {len(ts)} unconstrained points, before and after doubling a distribution "
                     "parameter and changing the bijector argument: value of the original variable = b(t), new log-density = p(b(t)) + log|db/dt| computed directly with TFP; liesel's own AlgebraicSigmoid bijector (Jacobian by autodiff); an initial value with an element on the support boundary (auto and manual); a chain of two transformations (the new variable transformed again); auto-transform of variables started at large values (float32 fixed points of softplus^-1); auto-transform of a variable two levels below the added variable / reached through an added node; parameter-dependent bijector in a COPIED graph (build_model(copy=True), LieselInterface, copy_nodes_and_vars + rebuild) x 4 entry points against the analytic image."),
            "samples": [{"distribution": "Uniform", "entry": "default"}], "exhaustive": False, "violations": col.violations}

"""C20 bounded stand-in: the real Stopper on all loss histories over a 3-letter alphabet, and the real
optim_flat end to end on small regression models (batch recording through a wrapper)."""
from __future__ import annotations

import itertools
import math

import jax
import jax.numpy as jnp
import numpy as np

from rtc import util  # noqa: F401
import liesel.goose.optim as optim
from liesel.goose.optim import Stopper, optim_flat

ALPHABET = (0.0, 0.5, 1.0)


def pseudo_stop(p, i, h, atol, rtol):
    """documented pseudo-code applied to the history up to iteration i, float32 arithmetic"""
    if not i > p:
        return False
    recent = np.asarray(h[: i + 1][-p:], dtype=np.float32)
    oldest, best = recent[0], np.min(recent)
    with np.errstate(all="ignore"):
        diff = np.float32(oldest - best)
        rel = np.float32(diff / np.abs(best))
    return bool(diff <= np.float32(atol)) or bool(rel <= np.float32(rtol))


def stopper_cases(col, tier):
    ns = (3, 5) if tier == "quick" else (1, 2, 3, 4, 5, 6)
    tols = ((1e-3, 0.0), (0.25, 0.0), (0.0, 0.6), (0.3, 0.5)) if tier == "quick" else ((1e-3, 0.0), (0.0, 0.0), (0.25, 0.0), (0.0, 0.6), (0.5, 1.0))
    distinct = 0
    for n in ns:
        hs = np.array(list(itertools.product(ALPHABET, repeat=n)), dtype=np.float32)
        for p in range(1, min(4, n) + 1):
            for atol, rtol in tols:
                st = Stopper(max_iter=n, patience=p, atol=atol, rtol=rtol)
                f_early = jax.jit(jax.vmap(jax.vmap(lambda i, h: st.stop_early(i, h), in_axes=(0, None)), in_axes=(None, 0)))
                f_now = jax.jit(jax.vmap(jax.vmap(lambda i, h: st.stop_now(i, h), in_axes=(0, None)), in_axes=(None, 0)))
                f_cont = jax.jit(jax.vmap(jax.vmap(lambda i, h: st.continue_(i, h), in_axes=(0, None)), in_axes=(None, 0)))
                f_best = jax.jit(jax.vmap(jax.vmap(lambda i, h: st.which_best_in_recent_history(i, h), in_axes=(0, None)), in_axes=(None, 0)))
                idx = jnp.arange(n)
                early, now, cont, best = [np.asarray(f(idx, jnp.asarray(hs))) for f in (f_early, f_now, f_cont, f_best)]
                for a, h in enumerate(hs):
                    for i in range(n):
                        distinct += 1
                        want = pseudo_stop(p, i, h, atol, rtol)
                        inp = {"max_iter": n, "patience": p, "atol": atol, "rtol": rtol, "i": i, "loss_history": [float(x) for x in h]}
                        if bool(early[a, i]) != want:
                            col.add({"sig": "native::stopper::stop_early", "what": f"stop_early={bool(early[a, i])}, documented rule={want}", "input": inp})
                        elif bool(now[a, i]) != (want or i >= n - 1):
                            col.add({"sig": "native::stopper::stop_now", "what": "stop_now != stop_early or i >= max_iter-1", "input": inp})
                        elif bool(cont[a, i]) == bool(now[a, i]):
                            col.add({"sig": "native::stopper::continue", "what": "continue_ is not the negation of stop_now", "input": inp})
                        else:
                            col.add(None)
                        if i - p + 1 >= 0:
                            w = h[i - p + 1 : i + 1]
                            wantb = i - p + 1 + int(np.argmin(w))
                            if int(best[a, i]) != wantb:
                                col.add({"sig": "native::stopper::which_best", "what": f"which_best={int(best[a, i])}, argmin of window={wantb}", "input": inp})
    return distinct


def reconfigured_stopper_cases(col):
    """ONE Stopper object whose settings are changed between queries (optim_flat itself widens and restores `patience` on the object it is handed): every
    query follows the documented rule with the settings the object has AT THAT TIME - same history shape, eager calls and calls under jit"""
    h = np.array([5.0, 4.0, 3.5, 3.4, 3.39, 3.38, 3.38, 3.37, 3.37, 3.37], np.float32)
    hj = jnp.asarray(h)
    st = Stopper(max_iter=10, patience=2, atol=0.05, rtol=0.0)
    bad = None
    for p, atol in ((2, 0.05), (6, 0.05), (3, 0.5), (2, 0.0), (8, 0.05)):
        st.patience, st.atol = p, atol
        for i in range(10):
            want = pseudo_stop(p, i, h, atol, 0.0)
            got = bool(st.stop_early(i, hj))
            got_j = bool(jax.jit(lambda i_, h_: st.stop_early(i_, h_))(i, hj))
            if got != want or got_j != want:
                bad = bad or f"patience set to {p}, atol {atol}, i={i}: stop_early={got} (under jit {got_j}), documented rule={want}"
            if i - p + 1 >= 0:
                wb = i - p + 1 + int(np.argmin(h[i - p + 1: i + 1]))
                gb = int(st.which_best_in_recent_history(i, hj))
                if gb != wb:
                    bad = bad or f"patience set to {p}, i={i}: which_best_in_recent_history={gb}, argmin of the window={wb}"
    col.add(None if bad is None else {"sig": "native::stopper::settings_changed_on_one_object", "what": bad, "input": {"loss_history": h.tolist(), "settings": "(patience, atol) = (2, .05), (6, .05), (3, .5), (2, 0), (8, .05) on one object"}})


def plain_int_loop_cases(col):
    """Stopper driven by a hand-written loop with a plain Python int counter and a numpy history (the documented `i: int | Array`): continue_ is the
    negation of stop_now, and the loop ends at the iteration limit - also for patience >= max_iter ('no early stopping')"""
    bad = None
    for M, p in ((6, 2), (6, 6), (20, 20), (20, 7)):
        st = Stopper(max_iter=M, patience=p, atol=0.01, rtol=0.0)
        h = np.linspace(3.0, 1.0, M).astype(np.float32)
        for i in range(M):
            sn, co = st.stop_now(i, h), st.continue_(i, h)
            if bool(co) == bool(sn):
                bad = f"Stopper(max_iter={M}, patience={p}): stop_now({i}) = {sn!r} but continue_({i}) = {co!r}"
                break
        if bad:
            break
        i = 0
        while st.continue_(i, h) and i < 3 * M:
            i += 1
        if i != M - 1:
            bad = f"Stopper(max_iter={M}, patience={p}): a `while stopper.continue_(i, history)` loop with a decreasing loss ended at i = {i}, the iteration limit is i = {M - 1}"
            break
    col.add(None if bad is None else {"sig": "native::stopper::plain_int_loop", "what": bad, "input": {"counter": "python int"}})


def make_models(n, seed, split=True):
    import tensorflow_probability.substrates.jax.distributions as tfd
    import liesel.model as lsl

    rng = np.random.default_rng(seed)
    x = rng.normal(size=n).astype(np.float32)
    y = (0.5 + 1.2 * x + rng.normal(size=n) * 0.3).astype(np.float32)

    def build(xx, yy):
        coef = lsl.param(jnp.zeros(2), lsl.Dist(tfd.Normal, loc=0.0, scale=10.0), name="coef")
        xvar = lsl.obs(jnp.c_[jnp.ones_like(xx), xx], name="x")
        mu = lsl.Var(lsl.Calc(jnp.dot, xvar, coef), name="mu")
        yvar = lsl.obs(yy, lsl.Dist(tfd.Normal, loc=mu, scale=1.0), name="y")
        return lsl.GraphBuilder().add(yvar).build_model()

    return build(x, y), build(x[: max(3, n // 2)] * 1.1, y[: max(3, n // 2)])


def run_optim(col, name, n, batch_size, validation, prune, restore, stopper, optimizer, seed):
    records = []
    orig = optim._generate_batch_indices

    def rec(key, n, batch_size):
        out = orig(key=key, n=n, batch_size=batch_size)
        jax.debug.callback(lambda b: records.append(np.array(b)), out)
        return out

    train, val = make_models(n, seed)
    optim._generate_batch_indices = rec
    import contextlib, io, sys
    try:
      with contextlib.redirect_stderr(io.StringIO()):  # optim_flat always creates a tqdm bar
        res = optim_flat(train, ["coef"], optimizer=optimizer, stopper=stopper, batch_size=batch_size, batch_seed=seed,
                         model_validation=val if validation else None, prune_history=prune, restore_best_position=restore, progress_bar=False)
        jax.effects_barrier()
    finally:
        optim._generate_batch_indices = orig
    p, M = stopper.patience, stopper.max_iter
    it, ib = int(res.iteration), int(res.iteration_best)
    inp = {"scenario": name, "n": n, "batch_size": batch_size, "validation": validation, "prune": prune, "restore": restore,
           "patience": p, "max_iter": M, "iteration": it, "iteration_best": ib}
    lv = np.asarray(res.history["loss_validation"])
    lt = np.asarray(res.history["loss_train"])
    hp = np.asarray(res.history["position"]["coef"])
    lo = max(it - p + 1, 0)
    if not (lo <= ib <= it):
        col.add({"sig": "native::optim::best_outside_window", "what": f"iteration_best={ib} outside the final patience window [{lo},{it}]", "input": inp})
    elif lv[ib] != np.min(lv[lo : it + 1]):
        col.add({"sig": "native::optim::best_not_minimal", "what": "iteration_best does not minimise the validation loss within the final window", "input": inp})
    else:
        col.add(None)
    want_pos = hp[ib] if restore else hp[it]
    if not np.array_equal(np.asarray(res.position["coef"]), want_pos):
        col.add({"sig": "native::optim::position", "what": "returned position is not the recorded position at the reported iteration", "input": inp})
    else:
        col.add(None)
    if not np.array_equal(np.asarray(res.model_state["coef_value"].value if "coef_value" in res.model_state else res.model_state["coef"].value), np.asarray(res.position["coef"])):
        col.add({"sig": "native::optim::model_state", "what": "returned model state does not hold the returned position", "input": inp})
    else:
        col.add(None)
    # the recorded losses are the losses OF THE RESPECTIVE DATA at the recorded positions: recomputed here from the data in closed form
    def closed_form(model, scale):
        X, yv = np.asarray(model.vars["x"].value, np.float64), np.asarray(model.vars["y"].value, np.float64)

        def loss(cf):
            ll = np.sum(-0.5 * (yv - X @ cf) ** 2 - 0.5 * np.log(2 * np.pi))
            lpri = np.sum(-0.5 * (cf / 10.0) ** 2 - np.log(10.0) - 0.5 * np.log(2 * np.pi))
            return -(scale * ll + lpri)
        return loss

    n_val = int(np.asarray(val.vars["y"].value).shape[0]) if validation else n
    f_val = closed_form(val if validation else train, n / n_val)
    f_train = closed_form(train, 1.0)
    idx = sorted({0, 1, it // 2, it} & set(range(it + 1)))
    off = [i for i in idx if not (np.isclose(lv[i], f_val(hp[i].astype(np.float64)), rtol=2e-3, atol=2e-3) and np.isclose(lt[i], f_train(hp[i].astype(np.float64)), rtol=2e-3, atol=2e-3))]
    if off:
        i = off[0]
        col.add({"sig": "native::optim::recorded_loss_is_not_the_loss_of_the_data", "what": f"iteration {i}: recorded (train, validation) loss = ({lt[i]:.4f}, {lv[i]:.4f}); recomputed from the "
                 f"{'validation' if validation else 'training'} / training data at the recorded position: ({f_train(hp[i].astype(np.float64)):.4f}, {f_val(hp[i].astype(np.float64)):.4f})", "input": inp})
    else:
        col.add(None)
    want_len = it + 1 if prune else M
    bad_len = any(len(a) != want_len for a in (lv, lt, hp))
    bad_pad = (not prune) and not (np.all(np.isnan(lv[it + 1 :])) and np.all(np.isnan(lt[it + 1 :])) and np.all(np.isnan(hp[it + 1 :])) and not np.any(np.isnan(lv[: it + 1])))
    if bad_len or bad_pad:
        col.add({"sig": "native::optim::history_shape", "what": f"history length/padding wrong (len={len(lv)}, want {want_len})", "input": inp})
    else:
        col.add(None)
    stopped_early = it < M - 1
    if validation and stopped_early and not pseudo_stop(p, it, lv, stopper.atol, stopper.rtol):
        col.add({"sig": "native::optim::stopped_without_rule", "what": "stopped early although the documented rule does not hold", "input": inp})
    elif validation and any(pseudo_stop(p, t, lv, stopper.atol, stopper.rtol) for t in range(it)):
        col.add({"sig": "native::optim::missed_stop", "what": "the documented rule held at an earlier iteration", "input": inp})
    else:
        col.add(None)
    if batch_size is not None and batch_size < n:
        if len(records) >= 2:
            same = all(np.array_equal(records[0], r) for r in records[1:])
            if same:
                used = set(np.unique(records[0]).tolist())
                never = sorted(set(range(n)) - used)
                col.add({"sig": "native::optim::identical_batches", "what": f"batch membership identical in all {len(records)} iterations; observations {never} never used",
                         "input": {**inp, "first_batches": records[0].tolist()}})
            else:
                col.add(None)
        for r in records[:3]:
            flat = r.ravel().tolist()
            if r.shape != (n // batch_size, batch_size) or len(set(flat)) != len(flat) or not set(flat) <= set(range(n)):
                col.add({"sig": "native::optim::batch_shape", "what": "batches are not disjoint index sets of the batch size", "input": inp})
    return inp


def default_stopper_history_case(col):
    """two calls that omit `stopper`: the first without a validation model, aborted by the documented ValueError (response declared with lsl.Var instead of
    lsl.obs: the log-probability does not decompose); the second, valid and WITH a validation model, must stop where a fresh Stopper(max_iter=10_000,
    patience=10) - the documented default - stops"""
    import contextlib, io
    import optax
    import tensorflow_probability.substrates.jax.distributions as tfd
    import liesel.model as lsl
    coef = lsl.param(jnp.zeros(2), lsl.Dist(tfd.Normal, loc=0.0, scale=10.0), name="coef")
    xvar = lsl.obs(jnp.ones((4, 2)), name="x")
    bad_y = lsl.Var(jnp.ones(4), lsl.Dist(tfd.Normal, loc=lsl.Var(lsl.Calc(jnp.dot, xvar, coef), name="mu"), scale=1.0), name="y")  # the user forgot observed=True
    bad = lsl.GraphBuilder().add(bad_y).build_model()
    with contextlib.redirect_stderr(io.StringIO()):
        try:
            optim_flat(bad, ["coef"], progress_bar=False)
            aborted = False
        except ValueError:
            aborted = True
        train, val = make_models(12, 3)
        res_default = optim_flat(train, ["coef"], optimizer=optax.adam(0.3), model_validation=val, progress_bar=False)
        train2, val2 = make_models(12, 3)
        res_fresh = optim_flat(train2, ["coef"], optimizer=optax.adam(0.3), stopper=Stopper(max_iter=10_000, patience=10), model_validation=val2, progress_bar=False)
        # ONE explicit stopper object for a fit without and then a fit with a validation model (optim_flat widens its patience in the first and restores it)
        shared = Stopper(max_iter=400, patience=10)
        t3, v3 = make_models(12, 3)
        optim_flat(t3, ["coef"], optimizer=optax.adam(0.3), stopper=shared, progress_bar=False)
        t4, v4 = make_models(12, 3)
        res_shared = optim_flat(t4, ["coef"], optimizer=optax.adam(0.3), stopper=shared, model_validation=v4, progress_bar=False)
        t5, v5 = make_models(12, 3)
        res_own = optim_flat(t5, ["coef"], optimizer=optax.adam(0.3), stopper=Stopper(max_iter=400, patience=10), model_validation=v5, progress_bar=False)
    if int(res_shared.iteration) != int(res_own.iteration) or int(res_shared.iteration_best) != int(res_own.iteration_best):
        col.add({"sig": "native::optim::stopper_object_reused", "what": f"a Stopper(max_iter=400, patience=10) used for a fit without validation model and then for one with: the second fit ran {int(res_shared.iteration)} iterations "
                 f"(best {int(res_shared.iteration_best)}); with a fresh stopper of the same settings it stops at {int(res_own.iteration)} (best {int(res_own.iteration_best)})", "input": {"calls": ["optim_flat(no validation, stopper=s)", "optim_flat(validation, stopper=s)"]}})
        return
    ok = aborted and int(res_default.iteration) == int(res_fresh.iteration) and int(res_default.iteration_best) == int(res_fresh.iteration_best)
    col.add(None if ok else {"sig": "native::optim::default_stopper_after_an_aborted_call", "what": f"after an aborted call without validation model (aborted={aborted}), a call with the default stopper ran "
                             f"{int(res_default.iteration)} iterations (best {int(res_default.iteration_best)}); a fresh Stopper(max_iter=10000, patience=10) stops at {int(res_fresh.iteration)} (best {int(res_fresh.iteration_best)})",
                             "input": {"calls": ["optim_flat(model whose log-prob does not decompose) -> ValueError", "optim_flat(valid model, model_validation=...)"]}})


def batch_index_cases(col):
    """_generate_batch_indices directly: for every (n, batch size) incl. n // batch_size == 1 with batch_size < n - each call gives
    n // batch_size disjoint batches of the batch size, and over different keys EVERY observation index gets into some batch (the
    batches are the leading part of a random permutation, not a fixed subset)"""
    from liesel.goose import optim
    for n, bs in ((10, 3), (10, 7), (10, 10), (9, 4), (12, 8), (5, 1)):
        seen, bad = set(), None
        for k in range(24):
            b = np.asarray(optim._generate_batch_indices(jax.random.PRNGKey(k), n, bs))
            flat = b.ravel().tolist()
            if b.shape != (n // bs, bs) or len(set(flat)) != len(flat) or not set(flat) <= set(range(n)):
                bad = f"key {k}: batches {b.tolist()} are not {n // bs} disjoint index sets of size {bs} within range({n})"
                break
            seen |= set(flat)
        if bad is None and seen != set(range(n)):
            bad = f"observations {sorted(set(range(n)) - seen)} never enter any batch for 24 different keys"
        col.add(None if bad is None else {"sig": "native::optim::batch_indices", "what": bad, "input": {"n": n, "batch_size": bs}})


def bounded(tier, seed):
    import optax

    col = util.Collector()
    try:
        batch_index_cases(col)
    except Exception as e:
        col.add({"sig": f"native::optim::exception::{type(e).__name__}", "what": str(e)[:200], "input": {"scenario": "batch indices"}})
    try:
        default_stopper_history_case(col)
    except Exception as e:
        col.add({"sig": f"native::optim::exception::{type(e).__name__}", "what": str(e)[:200], "input": {"scenario": "default stopper after an aborted call"}})
    distinct = stopper_cases(col, tier)
    try:
        reconfigured_stopper_cases(col)
    except Exception as e:
        col.add({"sig": f"native::stopper::exception::{type(e).__name__}", "what": str(e)[:200], "input": {"scenario": "settings changed on one Stopper object"}})
    try:
        plain_int_loop_cases(col)
    except Exception as e:
        col.add({"sig": f"native::stopper::exception::{type(e).__name__}", "what": str(e)[:200], "input": {"scenario": "plain python int loop"}})
    scen = [
        ("validation+prune", 12, None, True, True, True, Stopper(max_iter=60, patience=5, atol=0.05), optax.adam(0.3)),
        ("validation+pad", 12, None, True, False, True, Stopper(max_iter=40, patience=4, atol=0.05), optax.adam(0.3)),
        ("novalidation+oscillating", 12, None, False, True, True, Stopper(max_iter=40, patience=5), optax.sgd(0.17)),
        ("minibatch n=10 batch=3", 10, 3, True, True, True, Stopper(max_iter=12, patience=3, atol=0.0), optax.adam(0.05)),
        ("no-restore", 12, None, True, True, False, Stopper(max_iter=30, patience=4, atol=0.05), optax.adam(0.3)),
    ]
    if tier != "quick":
        scen += [("minibatch n=11 batch=4", 11, 4, False, False, True, Stopper(max_iter=9, patience=9), optax.adam(0.05)),
                 ("novalidation+pad", 9, None, False, False, True, Stopper(max_iter=25, patience=3), optax.sgd(0.2))]
    samples = []
    for s in scen:
        samples.append(run_optim(col, *s, seed=seed + 1))
        distinct += 1
    return {
        "evaluations": col.evals,
        "distinct_nontrivial": distinct,
        "rule": ("BOUNDED: real Stopper.stop_early/stop_now/continue_/which_best (jit+vmap) on every loss history over {0,0.5,1}^n, "
                 f"n in {(3, 5) if tier == 'quick' else (1, 2, 3, 4, 5, 6)}, patience 1..min(4,n), every i, several tolerance pairs, against the documented pseudo-code; hand-written loops with a plain Python int counter (continue_ = not stop_now, loop ends at the limit, patience below and at max_iter); "
                 f"real optim_flat on {len(scen)} small regression scenarios (validation / none, prune / pad, restore / last, minibatch with batch size "
                 "not dividing n; batches recorded through a wrapper of _generate_batch_indices; recorded train / validation losses recomputed in closed form from the training / (distinct) validation data at the recorded positions). one Stopper object re-configured between queries and re-used across two fits; a call with the default stopper after a call without validation model that was aborted by the documented ValueError. distinct = (history, i, patience, tolerances) tuples + scenarios."),
        "samples": samples[:2],
        "exhaustive": False,
        "violations": col.violations,
    }


def replay(unit_id, obligation, model):
    """solver models of the Stopper units: concrete (max_iter, patience, i, tolerances); histories are searched
    over the alphabet since window contents are abstract in the proof."""
    try:
        n, p, i = int(model["max_iter"]), int(model["patience"]), int(model["i"])
    except (KeyError, TypeError, ValueError):
        return None
    if not (1 <= n <= 7 and 1 <= p <= n):
        return None
    col = util.Collector()
    st = Stopper(max_iter=n, patience=p, atol=1e-3, rtol=0.0)
    for h in itertools.product(ALPHABET, repeat=n):
        h = np.asarray(h, dtype=np.float32)
        got = bool(st.stop_early(i, jnp.asarray(h)))
        want = pseudo_stop(p, i, h, 1e-3, 0.0)
        inp = {"max_iter": n, "patience": p, "atol": 1e-3, "rtol": 0.0, "i": i, "loss_history": [float(x) for x in h]}
        if got != want:
            return {"sig": "native::stopper::stop_early", "what": f"stop_early={got}, documented rule={want}", "input": inp}
        if i - p + 1 >= 0:
            b = int(st.which_best_in_recent_history(i, jnp.asarray(h)))
            wb = i - p + 1 + int(np.argmin(h[i - p + 1 : i + 1]))
            if b != wb:
                return {"sig": "native::stopper::which_best", "what": f"which_best={b}, argmin of window={wb}", "input": inp}
    return None

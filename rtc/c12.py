"""C12 bounded stand-in: real _tune_slow of HMC/NUTS on random histories; the tuned inverse mass matrix is compared with the
variance / covariance of the history flattened exactly as blackjax flattens the position (ravel_pytree)."""
from __future__ import annotations

import itertools

import jax
import jax.numpy as jnp
import numpy as np
from jax.flatten_util import ravel_pytree

from rtc import util
import liesel.goose as gs
from liesel.goose.epoch import EpochConfig, EpochType

SHAPES = {"a": (2,), "b": (), "W": (2, 3), "c": (1,)}
SCALES = {"a": np.array([1.0, 10.0]), "b": 100.0, "W": np.array([[0.5, 2.0, 8.0], [30.0, 0.1, 4.0]]), "c": np.array([0.01])}


def mk_iface(iface):
    """(model interface, function dict -> model state of that interface)"""
    import collections
    import dataclasses
    if iface == "dict":
        return gs.DictInterface(lambda s: 0.0), dict
    if iface == "namedtuple":
        NT = collections.namedtuple("State", list(SHAPES))
        return gs.NamedTupleInterface(lambda s: 0.0), lambda d: NT(**d)
    DC = dataclasses.make_dataclass("State", [(k_, object) for k_ in SHAPES])
    jax.tree_util.register_pytree_node(DC, lambda o: ([getattr(o, k_) for k_ in SHAPES], None), lambda aux, ch: DC(*ch))
    return gs.DataclassInterface(lambda s: 0.0), lambda d: DC(**d)


def case(col, kind, keys, diag, rng, T=40, iface="dict", user_mm=False):
    hist = {k: jnp.asarray(rng.normal(size=(T,) + SHAPES[k]) * SCALES[k], dtype=jnp.float32) for k in SHAPES}
    model, mk_state = mk_iface(iface)
    ms = mk_state({k: jnp.zeros(SHAPES[k], dtype=jnp.float32) for k in SHAPES})
    K = gs.NUTSKernel if kind == "NUTS" else gs.HMCKernel
    dim = int(sum(np.prod(SHAPES[kk], dtype=int) for kk in keys))
    # an explicit initial_inverse_mass_matrix only says where the adaptation STARTS
    k = K(list(keys), initial_step_size=0.1, mm_diag=diag, initial_inverse_mass_matrix=(jnp.full((dim,), 0.5) if diag else 0.5 * jnp.eye(dim)) if user_mm else None)
    k.set_model(model)
    key = jax.random.PRNGKey(0)
    ks = k.init_state(key, ms)
    ep = EpochConfig(EpochType.SLOW_ADAPTATION, T, 1, None).to_state(1, 0)
    # through the PUBLIC dispatcher tune(); a single-key kernel gets a history holding just its own key (an engine tracking nothing else)
    out = k.tune(key, ks, ms, ep, {kk: hist[kk] for kk in keys} if len(keys) == 1 else hist)
    got = np.asarray(out.kernel_state.inverse_mass_matrix)
    # the flat coordinates the matrix scales: the kernel's OWN position (whatever object the interface returns for it) flattened as blackjax does, per draw
    flat = np.asarray([np.asarray(ravel_pytree(k.position(mk_state({kk: hist[kk][t] for kk in SHAPES})))[0]) for t in range(T)], dtype=np.float64)
    want = np.var(flat, axis=0, ddof=1) + 0.001 if diag else np.atleast_2d(np.cov(flat, rowvar=False)) + 0.001 * np.eye(flat.shape[1])
    inp = {"kernel": kind, "position_keys": list(keys), "diagonal": diag, "shapes": {kk: list(SHAPES[kk]) for kk in keys}, "interface": iface, "initial_inverse_mass_matrix": "0.5 * identity" if user_mm else None}
    if got.shape != want.shape or not np.allclose(got, want, rtol=2e-3, atol=1e-6):
        col.add({"sig": "native::mm::alignment", "what": f"tuned inverse mass {'vector' if diag else 'matrix'} is not the regularised variance/covariance of the "
                 f"history in flat-position order: got diag {np.diag(got).round(3).tolist() if got.ndim == 2 else got.round(3).tolist()}, "
                 f"expected {np.diag(want).round(3).tolist() if want.ndim == 2 else want.round(3).tolist()}", "input": inp})
    else:
        col.add(None)


def offset_case(col, kind, diag, rng, T=60):
    """a history far away from the origin (mean 1000, sd 0.1 next to a standard-normal parameter): the tuned matrix must still be the
    regularised variance / covariance (a one-pass E[x^2] - E[x]^2 formula cancels catastrophically in float32)"""
    hist = {"mu": jnp.asarray(1000.0 + 0.1 * rng.normal(size=(T, 2)), dtype=jnp.float32), "z": jnp.asarray(rng.normal(size=(T,)), dtype=jnp.float32)}
    ms = {"mu": jnp.zeros((2,), jnp.float32), "z": jnp.float32(0.0)}
    K = gs.NUTSKernel if kind == "NUTS" else gs.HMCKernel
    k = K(["z", "mu"], initial_step_size=0.1, mm_diag=diag)
    k.set_model(gs.DictInterface(lambda s: 0.0))
    key = jax.random.PRNGKey(0)
    out = k._tune_slow(key, k.init_state(key, ms), ms, EpochConfig(EpochType.SLOW_ADAPTATION, T, 1, None).to_state(1, 0), hist)
    got = np.asarray(out.kernel_state.inverse_mass_matrix, np.float64)
    flat = np.asarray(jax.vmap(lambda p: ravel_pytree(p)[0])(hist), dtype=np.float64)
    want = np.var(flat, axis=0, ddof=1) + 0.001 if diag else np.atleast_2d(np.cov(flat, rowvar=False)) + 0.001 * np.eye(flat.shape[1])
    ok = got.shape == want.shape and np.allclose(got, want, rtol=2e-2, atol=2e-4)
    col.add(None if ok else {"sig": "native::mm::offset_history", "what": f"history with mean 1000 / sd 0.1: tuned {'vector' if diag else 'matrix diagonal'} "
                             f"{(got if got.ndim == 1 else np.diag(got)).round(5).tolist()}, regularised sample variance {(want if want.ndim == 1 else np.diag(want)).round(5).tolist()}",
                             "input": {"kernel": kind, "diagonal": diag, "history": "mu ~ 1000 + 0.1*N(0,1) (2 entries), z ~ N(0,1)"}})


def engine_case(col, kind, keys, diag, seed):
    """two slow-adaptation epochs (after a fast and a burn-in epoch of the same length) through the real engine with a second kernel on other keys"""
    K = gs.NUTSKernel if kind == "NUTS" else gs.HMCKernel
    b = gs.EngineBuilder(seed=seed, num_chains=2)
    # a BURNIN epoch directly before the first slow window: its draws are not part of "that epoch's recorded history"
    # ... and a FAST epoch of the SAME length before them (whatever is compiled or cached for one epoch must not be replayed for another)
    b.set_epochs([EpochConfig(EpochType.INITIAL_VALUES, 1, 1, None), EpochConfig(EpochType.FAST_ADAPTATION, 30, 1, None), EpochConfig(EpochType.BURNIN, 30, 1, None),
                  EpochConfig(EpochType.SLOW_ADAPTATION, 30, 1, None), EpochConfig(EpochType.SLOW_ADAPTATION, 30, 1, None)])
    sc = {k: jnp.asarray(SCALES[k], dtype=jnp.float32) for k in SHAPES}
    b.set_model(gs.DictInterface(lambda s: sum(-0.5 * jnp.sum((s[k] / sc[k]) ** 2) for k in SHAPES)))
    b.set_initial_values({k: jnp.zeros(SHAPES[k], dtype=jnp.float32) for k in SHAPES})
    b.add_kernel(K(list(keys), initial_step_size=0.05, mm_diag=diag))
    b.add_kernel(gs.RWKernel([k for k in SHAPES if k not in keys]))
    b.store_kernel_states = True
    b.show_progress = False
    eng = b.build()
    eng.sample_all_epochs()
    res = eng.get_results()
    inp = {"kernel": kind, "position_keys": list(keys), "diagonal": diag, "engine": True}
    for e in (3, 4):
        pos = res.positions.get_specific_chain(e).get().unwrap()
        own = {kk: np.asarray(pos[kk]) for kk in keys}
        nxt = res.kernel_states.unwrap().get_specific_chain(e).get().unwrap()[0].inverse_mass_matrix
        # the matrix in force after tuning of epoch e: read it from the engine's final states / next epoch's first state
        after = np.asarray(eng._kernel_states[0].inverse_mass_matrix) if e == 4 else np.asarray(res.kernel_states.unwrap().get_specific_chain(4).get().unwrap()[0].inverse_mass_matrix)[:, 0]
        for c in range(2):
            flat = np.asarray(jax.vmap(lambda p: ravel_pytree(p)[0])({kk: jnp.asarray(own[kk][c]) for kk in keys}), dtype=np.float64)
            want = np.var(flat, axis=0, ddof=1) + 0.001 if diag else np.atleast_2d(np.cov(flat, rowvar=False)) + 0.001 * np.eye(flat.shape[1])
            if not np.allclose(after[c], want, rtol=5e-3, atol=1e-5):
                col.add({"sig": "native::mm::engine_alignment", "what": f"after slow epoch {e}, chain {c}: inverse mass matrix is not the regularised variance/covariance of that epoch's own history", "input": inp})
                return
    col.add(None)


def two_tuned_kernels_case(col, kind, seed):
    """TWO gradient kernels of equal dimension in one engine whose user-assigned identifiers sort differently from the order they were added in ('zz_first' on b, then
    'aa_second' on c): after each slow epoch every kernel's matrix is the regularised variance of ITS OWN parameter's history (scales 100 vs 0.01)"""
    K = gs.NUTSKernel if kind == "NUTS" else gs.HMCKernel
    b = gs.EngineBuilder(seed=seed, num_chains=2)
    b.set_epochs([EpochConfig(EpochType.INITIAL_VALUES, 1, 1, None), EpochConfig(EpochType.FAST_ADAPTATION, 20, 1, None), EpochConfig(EpochType.SLOW_ADAPTATION, 30, 1, None),
                  EpochConfig(EpochType.SLOW_ADAPTATION, 40, 1, None), EpochConfig(EpochType.POSTERIOR, 4, 1, None)])
    sc = {k: jnp.asarray(SCALES[k], dtype=jnp.float32) for k in ("b", "c")}
    b.set_model(gs.DictInterface(lambda s: sum(-0.5 * jnp.sum((s[k] / sc[k]) ** 2) for k in ("b", "c"))))
    b.set_initial_values({k: jnp.zeros(SHAPES[k], dtype=jnp.float32) for k in ("b", "c")})
    k1, k2 = K(["b"], initial_step_size=0.05), K(["c"], initial_step_size=0.05)
    k1.identifier, k2.identifier = "zz_first", "aa_second"
    b.add_kernel(k1)
    b.add_kernel(k2)
    b.store_kernel_states = True
    b.show_progress = False
    eng = b.build()
    eng.sample_all_epochs()
    res = eng.get_results()
    bad = None
    for e in (2, 3):
        pos = res.positions.get_specific_chain(e).get().unwrap()
        nxt = res.kernel_states.unwrap().get_specific_chain(e + 1).get().unwrap()
        for j, kk in enumerate(("b", "c")):
            after = np.asarray(nxt[j].inverse_mass_matrix)[:, 0]
            for c in range(2):
                want = np.var(np.asarray(pos[kk][c], np.float64).reshape(len(pos[kk][c]), -1), axis=0, ddof=1) + 0.001
                if not np.allclose(after[c].reshape(-1), want, rtol=5e-3, atol=1e-5):
                    bad = bad or f"after slow epoch {e}, chain {c}: the matrix of the kernel on '{kk}' is {after[c].reshape(-1).tolist()}, the regularised variance of that epoch's history of '{kk}' is {want.tolist()}"
    col.add(None if bad is None else {"sig": "native::mm::two_kernels_unsorted_identifiers", "what": bad, "input": {"kernel": kind, "identifiers": ["zz_first (b)", "aa_second (c)"]}})


def bounded(tier, seed):
    rng = np.random.default_rng(seed)
    col = util.Collector()
    key_sets = [("b", "a"), ("a", "b"), ("W", "a"), ("c", "W", "b"), ("W",), ("b",)]
    if tier != "quick":
        key_sets += [p for p in itertools.permutations(("a", "b", "W")) if p not in key_sets]
    n = 0
    for kind in ("NUTS", "HMC"):
        for keys in key_sets:
            for diag in (True, False):
                case(col, kind, keys, diag, rng)
                n += 1
    # FEWER recorded draws than flat coordinates (short slow window, thinned warmup): the regularised covariance is still cov + 0.001 I on EVERY coordinate
    for kind in ("NUTS", "HMC"):
        for diag in (True, False):
            case(col, kind, ("c", "W"), diag, rng, T=5)  # the last flat coordinate (c) has variance 1e-4: the ridge of 0.001 dominates it
            n += 1
    for kind, keys, diag in (("NUTS", ("b", "a"), True), ("NUTS", ("W",), False), ("HMC", ("b", "a"), False), ("HMC", ("c", "W", "b"), True)):
        case(col, kind, keys, diag, rng, user_mm=True)
        n += 1
    for iface in ("namedtuple", "dataclass"):
        for kind, keys, diag in (("NUTS", ("b", "a"), True), ("HMC", ("c", "W", "b"), False)):
            try:
                case(col, kind, keys, diag, rng, iface=iface)
            except Exception as e:
                col.add({"sig": f"native::mm::exception::{type(e).__name__}", "what": f"{iface}: {str(e)[:200]}", "input": {"interface": iface, "kernel": kind}})
            n += 1
    for kind in ("NUTS", "HMC"):
        for diag in (True, False):
            offset_case(col, kind, diag, rng)
            n += 1
    for kind in (("NUTS",) if tier == "quick" else ("NUTS", "HMC")):
        try:
            two_tuned_kernels_case(col, kind, seed)
        except Exception as e:
            col.add({"sig": f"native::mm::exception::{type(e).__name__}", "what": f"two tuned kernels: {str(e)[:200]}", "input": {"kernel": kind}})
        n += 1
    leaves = jax.tree_util.tree_leaves({"b": 1, "a": 2, "W": 3})
    if leaves != [3, 2, 1]:
        col.add({"sig": "native::infrastructure::tree_leaves_order", "what": f"tree_leaves of a dict is no longer sorted-key order: {leaves}", "input": {}})
    for kind, keys, diag in ((("HMC", ("W", "b"), False),) if tier == "quick" else (("NUTS", ("b", "a"), True), ("HMC", ("W", "b"), False))):
        if True:
            engine_case(col, kind, keys, diag, seed)
            n += 1
    return {
        "evaluations": col.evals, "distinct_nontrivial": n,
        "rule": (f"BOUNDED: real NUTSKernel/HMCKernel.tune (public dispatcher, SLOW_ADAPTATION epoch; single-key kernels with a history of just that key) on seeded random histories (40 draws; and 5 draws for 7 coordinates, the last one with variance 1e-4) for {len(key_sets)} position-key tuples (non-alphabetical orders, "
                 "scalar / vector / (2,3)-matrix / length-1 parameters with very different scales, foreign keys present in the history), diagonal and dense mode, four of them with an explicit initial_inverse_mass_matrix; a history with mean 1000 and sd 0.1 (float32 cancellation); "
                 "expected = var(ddof=1)+0.001 / cov+0.001*I of the kernel's own position (kernel.position(state), DictInterface; NamedTupleInterface and DataclassInterface for two key tuples) flattened with ravel_pytree per draw. one real engine run (thorough: two, and all key permutations) with "
                 f"a fast, a burn-in and two slow-adaptation epochs of equal length and a co-existing RW kernel: the matrix in force after each epoch is computed from that epoch's own stored history; two gradient kernels of equal dimension with user identifiers in non-alphabetical order, each tuned from its own parameter's history. seed={seed}"),
        "samples": [{"kernel": "NUTS", "position_keys": ["b", "a"], "diagonal": True}, {"kernel": "HMC", "position_keys": ["c", "W", "b"], "diagonal": False}],
        "exhaustive": False, "violations": col.violations,
    }

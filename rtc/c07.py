"""C07 bounded stand-in: recording kernels driven by the real Engine over small valid schedules, chunk sizes,
chain and kernel counts, all-at-once and append-one-at-a-time; compared with the trace the statement prescribes."""
from __future__ import annotations

import itertools
import math
import random

import numpy as np

from rtc import util
from rtc.fixtures import END_WARMUP, RecordingKernel, expected_trace, kernel_logs, make_engine, mk_cfg

NAMES = {1: "START", 2: "TRANS", 3: "END", 4: "TUNE", 5: "END_WARMUP"}


def valid_type_seqs(maxlen):
    out = []
    for n in range(1, maxlen + 1):
        for ts in itertools.product((1, 2, 3, 4), repeat=n):
            seen_post = False
            ok = True
            for t in ts:
                if seen_post and t != 4:
                    ok = False
                seen_post = seen_post or t == 4
            if ok:
                out.append(ts)
    return out


def run_case(col, schedule, chunk, chains, kernels, needs_history, mode):
    inp = {"schedule": schedule, "chunk": chunk, "chains": chains, "kernels": kernels, "needs_history": list(needs_history[:kernels]), "mode": mode}
    try:
        if mode == "all":
            eng = make_engine(schedule, chunk, chains, kernels, needs_history)
            eng.sample_all_epochs()
        elif mode == "shared_config_objects":  # `[slow] * 3`: consecutive epochs with equal settings are ONE EpochConfig object
            eng = make_engine(schedule, chunk, chains, kernels, needs_history, share_config_objects=True)
            eng.sample_all_epochs()
        elif mode == "same_object_appended":
            eng = make_engine(schedule[:1], chunk, chains, kernels, needs_history)
            eng.sample_next_epoch()
            prev, obj = None, None
            for c in schedule[1:]:
                obj = obj if c == prev else mk_cfg(*c)
                prev = c
                eng.append_epoch(obj)
                eng.sample_next_epoch()
        elif mode == "incremental":
            eng = make_engine(schedule[:1], chunk, chains, kernels, needs_history)
            eng.sample_next_epoch()
            for c in schedule[1:]:
                eng.append_epoch(mk_cfg(*c))
                eng.sample_next_epoch()
        else:  # mixed: first half up front, rest appended, sample_all_epochs in between
            h = max(1, len(schedule) // 2)
            eng = make_engine(schedule[:h], chunk, chains, kernels, needs_history)
            eng.sample_all_epochs()
            for c in schedule[h:]:
                eng.append_epoch(mk_cfg(*c))
            eng.sample_all_epochs()
    except Exception as e:
        col.add({"sig": "native::engine::exception", "what": f"{type(e).__name__}: {str(e)[:200]}", "input": inp})
        return
    logs = kernel_logs(eng)
    for ki in range(kernels):
        want = expected_trace(schedule, needs_history[ki])
        for ci in range(chains):
            got = logs[ki][ci]
            if not needs_history[ki]:
                got = [g[:5] + (-1,) for g in got]
            if got != want:
                k = next((i for i, (a, b) in enumerate(zip(got, want)) if a != b), min(len(got), len(want)))
                what = (f"kernel {ki} chain {ci}: event {k} is {_fmt(got[k]) if k < len(got) else 'missing'}, expected "
                        f"{_fmt(want[k]) if k < len(want) else 'nothing'} ({len(got)} events, expected {len(want)})")
                kind = NAMES.get((got[k] if k < len(got) else want[k])[0], "?")
                col.add({"sig": f"native::engine::trace::{kind}", "what": what, "input": inp})
                return
    col.add(None)


def stateless_kernel_case(col):
    """a kernel whose state is an EMPTY pytree (like GibbsKernel) next to a stateful one: the lifecycle calls reach it like every other kernel. The calls
    are counted through Python side effects at the (un-jitted) epoch boundaries"""
    import jax
    import jax.numpy as jnp
    import liesel.goose as gs
    from liesel.goose.engine import Engine
    from liesel.goose.kernel import DefaultTransitionInfo, DefaultTuningInfo, ModelMixin, TransitionOutcome, TuningOutcome, WarmupOutcome
    from liesel.goose.kernel_sequence import KernelSequence
    log = []

    class Stateless(ModelMixin):
        error_book = {0: "no errors"}
        needs_history = False
        identifier = ""

        def __init__(self, keys):
            self._model = None
            self.position_keys = tuple(keys)

        def init_state(self, prng_key, model_state):
            return {}

        def start_epoch(self, prng_key, kernel_state, model_state, epoch):
            log.append(("start_epoch", int(epoch.config.type)))
            return kernel_state

        def end_epoch(self, prng_key, kernel_state, model_state, epoch):
            log.append(("end_epoch", int(epoch.config.type)))
            return kernel_state

        def transition(self, prng_key, kernel_state, model_state, epoch):
            return TransitionOutcome(DefaultTransitionInfo(0, jnp.float32(1.0), jnp.int32(0)), kernel_state, model_state)

        def tune(self, prng_key, kernel_state, model_state, epoch, history=None):
            log.append(("tune", int(epoch.config.type)))
            return TuningOutcome(DefaultTuningInfo(0, epoch.time), kernel_state)

        def end_warmup(self, prng_key, kernel_state, model_state, tuning_history):
            log.append(("end_warmup", -1))
            return WarmupOutcome(0, kernel_state)

    sched = [(0, 1, 1), (1, 4, 1), (3, 2, 1), (4, 4, 1)]
    k0, k1 = Stateless(["p0"]), RecordingKernel(["p1"])
    model = gs.DictInterface(lambda s_: 0.0)
    for i, k in enumerate((k0, k1)):
        k.set_model(model)
        k.identifier = f"kernel_{i:02d}"
    eng = Engine(seeds=jax.random.split(jax.random.PRNGKey(0), 2), model_states={"p0": jnp.zeros(2), "p1": jnp.zeros(2)}, kernel_sequence=KernelSequence([k0, k1]),
                 epoch_configs=[mk_cfg(*c) for c in sched], jitted_sample_duration=2, model=model, position_keys=None, show_progress=False)
    eng.sample_all_epochs()
    want = [("start_epoch", 1), ("end_epoch", 1), ("tune", 1), ("start_epoch", 3), ("end_epoch", 3), ("end_warmup", -1), ("start_epoch", 4), ("end_epoch", 4)]
    col.add(None if log == want else {"sig": "native::engine::stateless_kernel_lifecycle", "what": f"kernel with an empty state received {log}, expected {want}", "input": {"schedule": sched}})


def two_engines_one_builder_case(col):
    """two engines built from ONE builder (second build after the first engine was run / with the runs interleaved): each drives its kernel through the complete
    schedule - same lifecycle trace as a single engine"""
    import jax.numpy as jnp
    import liesel.goose as gs
    sched = [(0, 1, 1), (1, 4, 1), (3, 2, 1), (4, 4, 1)]
    want = [tuple(r) for r in expected_trace(sched, False)]

    def builder():
        b = gs.EngineBuilder(seed=1, num_chains=2)
        b.set_epochs([mk_cfg(*c) for c in sched])
        b.set_model(gs.DictInterface(lambda s_: 0.0))
        b.set_initial_values({"p0": jnp.zeros(()), "p1": jnp.zeros(())})
        b.show_progress = False
        return b

    bad = None
    for mode in ("sequential", "interleaved"):
        b = builder()
        k1, k2 = RecordingKernel(["p0"]), RecordingKernel(["p0"])
        b.add_kernel(k1)
        e1 = b.build()
        if mode == "sequential":
            e1.sample_all_epochs()
        b._kernels = []  # (a fresh kernel object for the second engine; the builder keeps everything else)
        b.add_kernel(k2)
        b.set_engine_seed(2)
        e2 = b.build()
        try:
            if mode == "interleaved":
                for _ in sched:
                    e1.sample_next_epoch()
                    e2.sample_next_epoch()
            else:
                e2.sample_all_epochs()
        except Exception as e:
            bad = bad or f"{mode}: {type(e).__name__}: {str(e)[:100]}"
            continue
        for nm, e in (("first", e1), ("second", e2)):
            got = kernel_logs(e)[0][0]
            if got != want:
                bad = bad or f"{mode}: the {nm} engine's kernel received {len(got)} lifecycle calls {_fmt(got[0]) if got else ''}..., a single engine with this schedule makes {len(want)}"
    col.add(None if bad is None else {"sig": "native::engine::two_engines_from_one_builder", "what": bad, "input": {"schedule": sched}})


def _fmt(e):
    return f"{NAMES.get(e[0], e[0])}(epoch={e[1]}, type={e[2]}, time_in_epoch={e[3]}, time={e[4]}, history={e[5]})"


def bounded(tier, seed):
    rng = random.Random(seed)
    col = util.Collector()
    seqs = valid_type_seqs(3)
    cases = []
    fixed = [((3, 4, 4), (2, 2, 2)), ((4,), (4,)), ((1, 2, 4), (4, 6, 2)), ((2, 2, 3), (3, 3, 3)), ((1, 3, 4), (2, 4, 6))]
    for ts, ds in fixed:
        sched = [(0, 1, 1)] + [(t, d, 1) for t, d in zip(ts, ds)]
        g = math.gcd(*ds)
        cases.append((sched, g, 2, 2, (True, False), "all"))
        cases.append((sched, 1, 1, 1, (False, False), "incremental"))
    for sched in ([(0, 1, 1), (1, 4, 1), (2, 6, 1), (2, 6, 1), (2, 6, 1), (4, 4, 1)], [(0, 1, 1), (2, 4, 2), (2, 4, 2), (4, 4, 1), (4, 4, 1)]):
        cases.append((sched, 2, 2, 2, (True, False), "shared_config_objects"))
        cases.append((sched, 2, 1, 1, (True, False), "same_object_appended"))
    n_rand = 6 if tier == "quick" else 120
    for _ in range(n_rand):
        ts = rng.choice(seqs)
        chunk = rng.choice((1, 2, 3))
        ds = [chunk * rng.randint(1, 3) for _ in ts]
        th = [rng.choice([x for x in (1, 2, 3) if d % x == 0]) for d in ds]
        sched = [(0, 1, 1)] + list(zip(ts, ds, th))
        cases.append((sched, chunk, rng.choice((1, 3)), rng.choice((1, 2)), rng.choice(((False, False), (True, False), (True, True))), rng.choice(("all", "incremental", "mixed"))))
    if tier != "quick":
        for ts in seqs:
            sched = [(0, 1, 1)] + [(t, 2, 1) for t in ts]
            cases.append((sched, 2, 1, 1, (True, False), "all"))
            cases.append((sched, 1, 2, 2, (False, True), "incremental"))
    try:
        two_engines_one_builder_case(col)
    except Exception as e:
        col.add({"sig": "native::engine::exception", "what": f"two engines from one builder: {type(e).__name__}: {str(e)[:200]}", "input": {"scenario": "two engines from one builder"}})
    try:
        stateless_kernel_case(col)
    except Exception as e:
        col.add({"sig": "native::engine::exception", "what": f"stateless kernel: {type(e).__name__}: {str(e)[:200]}", "input": {"scenario": "stateless kernel"}})
    for cse in cases:
        run_case(col, *cse)
    return {
        "evaluations": col.evals,
        "distinct_nontrivial": len({repr(c) for c in cases}),
        "rule": (f"BOUNDED: real Engine with recording kernels (events logged inside the kernel state, per chain; plus one kernel with an EMPTY state whose calls are counted by side effects) on {len(cases)} cases: fixed schedules "
                 "([BURNIN,POST,POST], [POST], [FAST,SLOW,POST], ...) plus seeded random valid schedules of <= 3 epochs after the initial one, durations = chunk x 1..3, "
                 "thinning dividing the duration, chunk in 1..3, chains in {1,3}, kernels in {1,2}, history requirement per kernel, schedules whose consecutive equal epochs share ONE configuration object (given up front and appended), and three driving modes "
                 f"(sample_all_epochs / append_epoch + sample_next_epoch one at a time / mixed); thorough adds all {len(seqs)} valid type sequences. seed={seed}."),
        "samples": [{"schedule": cases[0][0], "chunk": cases[0][1], "chains": 2, "kernels": 2, "mode": "all"}, {"schedule": cases[-1][0], "chunk": cases[-1][1], "mode": cases[-1][5]}],
        "exhaustive": False,
        "violations": col.violations,
    }

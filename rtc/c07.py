"""C07 bounded stand-in: recording kernels driven by the real Engine over small valid schedules, chunk sizes,
chain and kernel counts, all-at-once and append-one-at-a-time; compared with the trace the statement prescribes."""
from __future__ import annotations

import itertools
import math
import random

import numpy as np

from rtc import util
from rtc.fixtures import END_WARMUP, expected_trace, kernel_logs, make_engine, mk_cfg

NAMES = {1: "START", 2: "TRANS", 3: "END", 4: "TUNE", 5: "END_WARMUP"}


def valid_type_seqs(maxlen):
    out = []
    for n in range(1, maxlen + 1):
        for ts in itertools.product((1, 2, 3, 4), repeat=n):
            seen_post = False
            ok = True
            for t in ts:
                if seen_post and t != 4:
                    ok = False
                seen_post = seen_post or t == 4
            if ok:
                out.append(ts)
    return out


def run_case(col, schedule, chunk, chains, kernels, needs_history, mode):
    inp = {"schedule": schedule, "chunk": chunk, "chains": chains, "kernels": kernels, "needs_history": list(needs_history[:kernels]), "mode": mode}
    try:
        if mode == "all":
            eng = make_engine(schedule, chunk, chains, kernels, needs_history)
            eng.sample_all_epochs()
        elif mode == "shared_config_objects":  # `[slow] * 3`: consecutive epochs with equal settings are ONE EpochConfig object
            eng = make_engine(schedule, chunk, chains, kernels, needs_history, share_config_objects=True)
            eng.sample_all_epochs()
        elif mode == "same_object_appended":
            eng = make_engine(schedule[:1], chunk, chains, kernels, needs_history)
            eng.sample_next_epoch()
            prev, obj = None, None
            for c in schedule[1:]:
                obj = obj if c == prev else mk_cfg(*c)
                prev = c
                eng.append_epoch(obj)
                eng.sample_next_epoch()
        elif mode == "incremental":
            eng = make_engine(schedule[:1], chunk, chains, kernels, needs_history)
            eng.sample_next_epoch()
            for c in schedule[1:]:
                eng.append_epoch(mk_cfg(*c))
                eng.sample_next_epoch()
        else:  # mixed: first half up front, rest appended, sample_all_epochs in between
            h = max(1, len(schedule) // 2)
            eng = make_engine(schedule[:h], chunk, chains, kernels, needs_history)
            eng.sample_all_epochs()
            for c in schedule[h:]:
                eng.append_epoch(mk_cfg(*c))
            eng.sample_all_epochs()
    except Exception as e:
        col.add({"sig": "native::engine::exception", "what": f"{type(e).__name__}: {str(e)[:200]}", "input": inp})
        return
    logs = kernel_logs(eng)
    for ki in range(kernels):
        want = expected_trace(schedule, needs_history[ki])
        for ci in range(chains):
            got = logs[ki][ci]
            if not needs_history[ki]:
                got = [g[:5] + (-1,) for g in got]
            if got != want:
                k = next((i for i, (a, b) in enumerate(zip(got, want)) if a != b), min(len(got), len(want)))
                what = (f"kernel {ki} chain {ci}: event {k} is {_fmt(got[k]) if k < len(got) else 'missing'}, expected "
                        f"{_fmt(want[k]) if k < len(want) else 'nothing'} ({len(got)} events, expected {len(want)})")
                kind = NAMES.get((got[k] if k < len(got) else want[k])[0], "?")
                col.add({"sig": f"native::engine::trace::{kind}", "what": what, "input": inp})
                return
    col.add(None)


def _fmt(e):
    return f"{NAMES.get(e[0], e[0])}(epoch={e[1]}, type={e[2]}, time_in_epoch={e[3]}, time={e[4]}, history={e[5]})"


def bounded(tier, seed):
    rng = random.Random(seed)
    col = util.Collector()
    seqs = valid_type_seqs(3)
    cases = []
    fixed = [((3, 4, 4), (2, 2, 2)), ((4,), (4,)), ((1, 2, 4), (4, 6, 2)), ((2, 2, 3), (3, 3, 3)), ((1, 3, 4), (2, 4, 6))]
    for ts, ds in fixed:
        sched = [(0, 1, 1)] + [(t, d, 1) for t, d in zip(ts, ds)]
        g = math.gcd(*ds)
        cases.append((sched, g, 2, 2, (True, False), "all"))
        cases.append((sched, 1, 1, 1, (False, False), "incremental"))
    for sched in ([(0, 1, 1), (1, 4, 1), (2, 6, 1), (2, 6, 1), (2, 6, 1), (4, 4, 1)], [(0, 1, 1), (2, 4, 2), (2, 4, 2), (4, 4, 1), (4, 4, 1)]):
        cases.append((sched, 2, 2, 2, (True, False), "shared_config_objects"))
        cases.append((sched, 2, 1, 1, (True, False), "same_object_appended"))
    n_rand = 6 if tier == "quick" else 120
    for _ in range(n_rand):
        ts = rng.choice(seqs)
        chunk = rng.choice((1, 2, 3))
        ds = [chunk * rng.randint(1, 3) for _ in ts]
        th = [rng.choice([x for x in (1, 2, 3) if d % x == 0]) for d in ds]
        sched = [(0, 1, 1)] + list(zip(ts, ds, th))
        cases.append((sched, chunk, rng.choice((1, 3)), rng.choice((1, 2)), rng.choice(((False, False), (True, False), (True, True))), rng.choice(("all", "incremental", "mixed"))))
    if tier != "quick":
        for ts in seqs:
            sched = [(0, 1, 1)] + [(t, 2, 1) for t in ts]
            cases.append((sched, 2, 1, 1, (True, False), "all"))
            cases.append((sched, 1, 2, 2, (False, True), "incremental"))
    for cse in cases:
        run_case(col, *cse)
    return {
        "evaluations": col.evals,
        "distinct_nontrivial": len({repr(c) for c in cases}),
        "rule": (f"BOUNDED: real Engine with recording kernels (events logged inside the kernel state, per chain) on {len(cases)} cases: fixed schedules "
                 "([BURNIN,POST,POST], [POST], [FAST,SLOW,POST], ...) plus seeded random valid schedules of <= 3 epochs after the initial one, durations = chunk x 1..3, "
                 "thinning dividing the duration, chunk in 1..3, chains in {1,3}, kernels in {1,2}, history requirement per kernel, schedules whose consecutive equal epochs share ONE configuration object (given up front and appended), and three driving modes "
                 f"(sample_all_epochs / append_epoch + sample_next_epoch one at a time / mixed); thorough adds all {len(seqs)} valid type sequences. seed={seed}."),
        "samples": [{"schedule": cases[0][0], "chunk": cases[0][1], "chains": 2, "kernels": 2, "mode": "all"}, {"schedule": cases[-1][0], "chunk": cases[-1][1], "mode": cases[-1][5]}],
        "exhaustive": False,
        "violations": col.violations,
    }
